package interp

// SMT terms: immutable DAG nodes over Bool and fixed-width bit-vectors, with
// constant folding, a few local simplifications, an evaluator (for checking a
// branch condition against the current model without a solver call) and an
// SMT-LIB2 printer that emits one define-fun per shared node.

import (
	"fmt"
	"math/bits"
	"strings"
)

type Term struct {
	op   string // see mk* constructors
	w    int    // 0 = Bool, otherwise bit-vector width
	args []*Term
	k    uint64 // constant value (w <= 64)
	p1   int    // extract: hi; zext/sext: amount
	p2   int    // extract: lo
	name string // variable or uninterpreted-function name
	size int    // number of tree nodes (saturating), used to decide on sharing
	h    uint64 // structural hash, computed lazily (0 = not yet)
}

var (
	termTrue  = &Term{op: "true", size: 1}
	termFalse = &Term{op: "false", size: 1}
)

func mask(w int) uint64 {
	if w >= 64 {
		return ^uint64(0)
	}
	return (uint64(1) << uint(w)) - 1
}

func (t *Term) isConst() bool { return t.op == "const" || t.op == "true" || t.op == "false" }
func (t *Term) isTrue() bool  { return t.op == "true" }
func (t *Term) isFalse() bool { return t.op == "false" }

func mkBool(b bool) *Term {
	if b {
		return termTrue
	}
	return termFalse
}

func mkConst(v uint64, w int) *Term {
	if w <= 0 {
		panic("mkConst: width")
	}
	if w > 64 {
		return mkZext(mkConst(v, 64), w-64)
	}
	return &Term{op: "const", w: w, k: v & mask(w), size: 1}
}

func mkVar(name string, w int) *Term { return &Term{op: "var", w: w, name: name, size: 1} }

func node(op string, w int, args ...*Term) *Term {
	sz := 1
	for _, a := range args {
		sz += a.size
		if sz > 1<<30 {
			sz = 1 << 30
		}
	}
	return &Term{op: op, w: w, args: args, size: sz}
}

func sext64(v uint64, w int) int64 {
	if w >= 64 {
		return int64(v)
	}
	sh := uint(64 - w)
	return int64(v<<sh) >> sh
}

// sameTerm is a cheap syntactic-equality test (pointer equality, constants,
// variables, and a shallow structural comparison).
func sameTerm(a, b *Term) bool { return a == b || (sameTermD(a, b, 4) || (a.size > 8 && termEqual(a, b))) }

// hash is a structural hash of the term DAG (memoised in the node).
func (t *Term) hash() uint64 {
	if t.h != 0 {
		return t.h
	}
	h := uint64(14695981039346656037)
	mix := func(v uint64) {
		h ^= v
		h *= 1099511628211
		h ^= h >> 29
	}
	for i := 0; i < len(t.op); i++ {
		mix(uint64(t.op[i]))
	}
	mix(uint64(t.w))
	mix(t.k)
	mix(uint64(t.p1)<<20 ^ uint64(t.p2))
	for i := 0; i < len(t.name); i++ {
		mix(uint64(t.name[i]))
	}
	for _, a := range t.args {
		mix(a.hash())
	}
	if h == 0 {
		h = 1
	}
	t.h = h
	return h
}

// termEqual is full structural equality (hash filter first, then a memoised walk).
func termEqual(a, b *Term) bool {
	if a == b {
		return true
	}
	if a.hash() != b.hash() {
		return false
	}
	seen := map[[2]*Term]bool{}
	var eq func(x, y *Term) bool
	eq = func(x, y *Term) bool {
		if x == y {
			return true
		}
		if x.hash() != y.hash() || x.op != y.op || x.w != y.w || x.k != y.k || x.p1 != y.p1 || x.p2 != y.p2 || x.name != y.name || len(x.args) != len(y.args) {
			return false
		}
		key := [2]*Term{x, y}
		if seen[key] {
			return true
		}
		seen[key] = true
		for i := range x.args {
			if !eq(x.args[i], y.args[i]) {
				return false
			}
		}
		return true
	}
	return eq(a, b)
}

func sameTermD(a, b *Term, d int) bool {
	if a == b {
		return true
	}
	if a.op != b.op || a.w != b.w || a.k != b.k || a.p1 != b.p1 || a.p2 != b.p2 || a.name != b.name || len(a.args) != len(b.args) {
		return false
	}
	if len(a.args) == 0 {
		return true
	}
	if d == 0 || a.size != b.size || a.size > 64 {
		return false
	}
	for i := range a.args {
		if !sameTermD(a.args[i], b.args[i], d-1) {
			return false
		}
	}
	return true
}

// foldBin computes op on constants of width w (w <= 64).
func foldBin(op string, w int, x, y uint64) (uint64, bool) {
	m := mask(w)
	switch op {
	case "bvadd":
		return (x + y) & m, true
	case "bvsub":
		return (x - y) & m, true
	case "bvmul":
		return (x * y) & m, true
	case "bvand":
		return x & y, true
	case "bvor":
		return x | y, true
	case "bvxor":
		return x ^ y, true
	case "bvudiv":
		if y == 0 {
			return m, true
		}
		return x / y, true
	case "bvurem":
		if y == 0 {
			return x, true
		}
		return x % y, true
	case "bvsdiv":
		sx, sy := sext64(x, w), sext64(y, w)
		if sy == 0 {
			if sx < 0 {
				return 1, true
			}
			return m, true
		}
		if sy == -1 {
			return uint64(-sx) & m, true
		}
		return uint64(sx/sy) & m, true
	case "bvsrem":
		sx, sy := sext64(x, w), sext64(y, w)
		if sy == 0 {
			return x, true
		}
		if sy == -1 {
			return 0, true
		}
		return uint64(sx%sy) & m, true
	case "bvshl":
		if y >= uint64(w) {
			return 0, true
		}
		return (x << y) & m, true
	case "bvlshr":
		if y >= uint64(w) {
			return 0, true
		}
		return x >> y, true
	case "bvashr":
		sx := sext64(x, w)
		if y >= uint64(w) {
			y = uint64(w - 1)
		}
		return uint64(sx>>y) & m, true
	}
	return 0, false
}

func foldCmp(op string, w int, x, y uint64) (bool, bool) {
	switch op {
	case "bvult":
		return x < y, true
	case "bvule":
		return x <= y, true
	case "bvslt":
		return sext64(x, w) < sext64(y, w), true
	case "bvsle":
		return sext64(x, w) <= sext64(y, w), true
	}
	return false, false
}

// mkBin builds a bit-vector binary operation.
func mkBin(op string, x, y *Term) *Term {
	if x.w != y.w || x.w == 0 {
		panic(fmt.Sprintf("mkBin %s: widths %d %d", op, x.w, y.w))
	}
	w := x.w
	if w <= 64 && x.op == "const" && y.op == "const" {
		if v, ok := foldBin(op, w, x.k, y.k); ok {
			return mkConst(v, w)
		}
	}
	if w <= 64 {
		xc, yc := x.op == "const", y.op == "const"
		switch op {
		case "bvadd", "bvor", "bvxor":
			if xc && x.k == 0 {
				return y
			}
			if yc && y.k == 0 {
				return x
			}
		case "bvsub", "bvshl", "bvlshr", "bvashr":
			if yc && y.k == 0 {
				return x
			}
			if op != "bvsub" && xc && x.k == 0 {
				return x
			}
		case "bvmul":
			if xc && x.k == 1 {
				return y
			}
			if yc && y.k == 1 {
				return x
			}
			if (xc && x.k == 0) || (yc && y.k == 0) {
				return mkConst(0, w)
			}
		case "bvand":
			if (xc && x.k == 0) || (yc && y.k == 0) {
				return mkConst(0, w)
			}
			if xc && x.k == mask(w) {
				return y
			}
			if yc && y.k == mask(w) {
				return x
			}
		case "bvudiv":
			if yc && y.k == 1 {
				return x
			}
		}
		if (op == "bvshl" || op == "bvlshr") && y.op == "const" && y.k >= uint64(w) {
			return mkConst(0, w)
		}
		if (op == "bvand" || op == "bvor" || ((op == "bvlshr" || op == "bvshl") && yc)) && (xc || yc) {
			t := node(op, w, x, y)
			if z, o := knownBits(t, 6); z|o == mask(w) {
				return mkConst(o, w)
			}
			return t
		}
	}
	return node(op, w, x, y)
}

func mkCmp(op string, x, y *Term) *Term {
	if x.w != y.w || x.w == 0 {
		panic(fmt.Sprintf("mkCmp %s: widths %d %d", op, x.w, y.w))
	}
	if x.w <= 64 && x.op == "const" && y.op == "const" {
		if v, ok := foldCmp(op, x.w, x.k, y.k); ok {
			return mkBool(v)
		}
	}
	if sameTerm(x, y) {
		return mkBool(op == "bvule" || op == "bvsle")
	}
	if op == "bvult" && y.op == "const" && y.k == 0 {
		return termFalse
	}
	if (op == "bvult" || op == "bvule") && x.w <= 64 && (x.op == "const" || y.op == "const") {
		zx, ox := knownBits(x, 4)
		zy, oy := knownBits(y, 4)
		m := mask(x.w)
		minX, maxX, minY, maxY := ox, ^zx&m, oy, ^zy&m
		if op == "bvult" {
			if maxX < minY {
				return termTrue
			}
			if minX >= maxY {
				return termFalse
			}
		} else {
			if maxX <= minY {
				return termTrue
			}
			if minX > maxY {
				return termFalse
			}
		}
	}
	if op == "bvule" && x.op == "const" && x.k == 0 {
		return termTrue
	}
	return node(op, 0, x, y)
}

// knownBits returns the bits of t known to be zero and known to be one (t.w <= 64); a
// cheap, depth-limited abstraction used to fold comparisons against constants.
func knownBits(t *Term, depth int) (zeros, ones uint64) {
	if t.w == 0 || t.w > 64 {
		return 0, 0
	}
	m := mask(t.w)
	if t.op == "const" {
		return ^t.k & m, t.k
	}
	if depth <= 0 {
		return 0, 0
	}
	switch t.op {
	case "bvand":
		z1, o1 := knownBits(t.args[0], depth-1)
		z2, o2 := knownBits(t.args[1], depth-1)
		return (z1 | z2) & m, o1 & o2
	case "bvor":
		z1, o1 := knownBits(t.args[0], depth-1)
		z2, o2 := knownBits(t.args[1], depth-1)
		return z1 & z2, (o1 | o2) & m
	case "zext":
		z, o := knownBits(t.args[0], depth-1)
		return (z | (m &^ mask(t.args[0].w))) & m, o
	case "concat":
		hi, lo := t.args[0], t.args[1]
		if hi.w+lo.w > 64 {
			return 0, 0
		}
		z1, o1 := knownBits(hi, depth-1)
		z2, o2 := knownBits(lo, depth-1)
		return (z1<<uint(lo.w) | z2) & m, (o1<<uint(lo.w) | o2) & m
	case "bvlshr", "bvshl":
		if t.args[1].op != "const" {
			return 0, 0
		}
		k := t.args[1].k
		if k >= uint64(t.w) {
			return m, 0
		}
		z, o := knownBits(t.args[0], depth-1)
		if t.op == "bvlshr" {
			return (z>>k | m&^(m>>k)) & m, o >> k
		}
		return (z<<k | (uint64(1)<<k - 1)) & m, (o << k) & m
	case "extract":
		if t.args[0].w > 64 {
			return 0, 0
		}
		z, o := knownBits(t.args[0], depth-1)
		return (z >> uint(t.p2)) & m, (o >> uint(t.p2)) & m
	case "ite":
		z1, o1 := knownBits(t.args[1], depth-1)
		z2, o2 := knownBits(t.args[2], depth-1)
		return z1 & z2, o1 & o2
	case "bvadd":
		// constant + value whose set bits cannot carry into the constant's bits
		x, y := t.args[0], t.args[1]
		if x.op == "const" {
			x, y = y, x
		}
		if y.op == "const" {
			z, _ := knownBits(x, depth-1)
			maxX := ^z & m
			if maxX&y.k == 0 && maxX+y.k >= maxX && (maxX+y.k)&^m == 0 {
				// no overlap: behaves like or
				_, o := knownBits(x, depth-1)
				return z &^ y.k, o | y.k
			}
		}
	}
	return 0, 0
}

func mkEq(x, y *Term) *Term {
	if x.w != y.w {
		panic(fmt.Sprintf("mkEq: widths %d %d", x.w, y.w))
	}
	if x.isConst() && y.isConst() {
		if x.w == 0 {
			return mkBool(x.isTrue() == y.isTrue())
		}
		if x.w <= 64 {
			return mkBool(x.k == y.k)
		}
	}
	if sameTerm(x, y) {
		return termTrue
	}
	if x.w > 0 && x.w <= 64 && (x.op == "const" || y.op == "const") {
		c, v := x, y
		if y.op == "const" {
			c, v = y, x
		}
		z, o := knownBits(v, 6)
		if c.k&z != 0 || ^c.k&mask(x.w)&o != 0 {
			return termFalse
		}
		if z|o == mask(x.w) {
			return mkBool(o == c.k)
		}
	}
	if x.w == 0 {
		if x.isTrue() {
			return y
		}
		if y.isTrue() {
			return x
		}
		if x.isFalse() {
			return mkNot(y)
		}
		if y.isFalse() {
			return mkNot(x)
		}
	}
	// (= (ite c k1 k2) k) with constants
	if y.op == "const" && x.op == "ite" && x.args[1].op == "const" && x.args[2].op == "const" && x.w <= 64 {
		a, b := x.args[1].k == y.k, x.args[2].k == y.k
		switch {
		case a && b:
			return termTrue
		case !a && !b:
			return termFalse
		case a:
			return x.args[0]
		default:
			return mkNot(x.args[0])
		}
	}
	return node("=", 0, x, y)
}

func mkNot(x *Term) *Term {
	if x.w != 0 {
		panic("mkNot: not bool")
	}
	switch x.op {
	case "true":
		return termFalse
	case "false":
		return termTrue
	case "not":
		return x.args[0]
	}
	return node("not", 0, x)
}

func mkAnd(x, y *Term) *Term {
	if x.w != 0 || y.w != 0 {
		panic("mkAnd: not bool")
	}
	if x.isFalse() || y.isFalse() {
		return termFalse
	}
	if x.isTrue() {
		return y
	}
	if y.isTrue() {
		return x
	}
	if x == y {
		return x
	}
	return node("and", 0, x, y)
}

func mkOr(x, y *Term) *Term {
	if x.w != 0 || y.w != 0 {
		panic("mkOr: not bool")
	}
	if x.isTrue() || y.isTrue() {
		return termTrue
	}
	if x.isFalse() {
		return y
	}
	if y.isFalse() {
		return x
	}
	if x == y {
		return x
	}
	return node("or", 0, x, y)
}

func mkXorB(x, y *Term) *Term { return mkNot(mkEq(x, y)) }

func mkIte(c, a, b *Term) *Term {
	if c.w != 0 || a.w != b.w {
		panic(fmt.Sprintf("mkIte: widths %d %d %d", c.w, a.w, b.w))
	}
	if c.isTrue() {
		return a
	}
	if c.isFalse() {
		return b
	}
	if sameTerm(a, b) {
		return a
	}
	if a.w == 0 {
		if a.isTrue() && b.isFalse() {
			return c
		}
		if a.isFalse() && b.isTrue() {
			return mkNot(c)
		}
		if a.isTrue() {
			return mkOr(c, b)
		}
		if b.isFalse() {
			return mkAnd(c, a)
		}
		if a.isFalse() {
			return mkAnd(mkNot(c), b)
		}
		if b.isTrue() {
			return mkOr(mkNot(c), a)
		}
	}
	t := node("ite", a.w, c, a, b)
	return t
}

func mkNeg(x *Term) *Term {
	if x.op == "const" && x.w <= 64 {
		return mkConst(-x.k, x.w)
	}
	return node("bvneg", x.w, x)
}

func mkBvNot(x *Term) *Term {
	if x.op == "const" && x.w <= 64 {
		return mkConst(^x.k, x.w)
	}
	if x.op == "bvnot" {
		return x.args[0]
	}
	return node("bvnot", x.w, x)
}

func mkZext(x *Term, n int) *Term {
	if n == 0 {
		return x
	}
	if n < 0 || x.w == 0 {
		panic("mkZext")
	}
	if x.op == "const" && x.w+n <= 64 {
		return mkConst(x.k, x.w+n)
	}
	if x.op == "zext" {
		return mkZext(x.args[0], n+x.p1)
	}
	t := node("zext", x.w+n, x)
	t.p1 = n
	return t
}

func mkSext(x *Term, n int) *Term {
	if n == 0 {
		return x
	}
	if n < 0 || x.w == 0 {
		panic("mkSext")
	}
	if x.op == "const" && x.w+n <= 64 {
		return mkConst(uint64(sext64(x.k, x.w)), x.w+n)
	}
	if x.op == "zext" {
		return mkZext(x.args[0], n+x.p1) // sign bit is known zero
	}
	if x.op == "sext" {
		return mkSext(x.args[0], n+x.p1)
	}
	t := node("sext", x.w+n, x)
	t.p1 = n
	return t
}

func mkExtract(x *Term, hi, lo int) *Term {
	if lo < 0 || hi < lo || hi >= x.w {
		panic(fmt.Sprintf("mkExtract %d %d of width %d", hi, lo, x.w))
	}
	if lo == 0 && hi == x.w-1 {
		return x
	}
	w := hi - lo + 1
	switch x.op {
	case "const":
		if x.w <= 64 {
			return mkConst(x.k>>uint(lo), w)
		}
	case "extract":
		return mkExtract(x.args[0], hi+x.p2, lo+x.p2)
	case "zext":
		iw := x.args[0].w
		if hi < iw {
			return mkExtract(x.args[0], hi, lo)
		}
		if lo >= iw {
			return mkConst(0, w)
		}
		return mkZext(mkExtract(x.args[0], iw-1, lo), hi-iw+1)
	case "sext":
		iw := x.args[0].w
		if hi < iw {
			return mkExtract(x.args[0], hi, lo)
		}
	case "concat":
		lw := x.args[1].w
		if hi < lw {
			return mkExtract(x.args[1], hi, lo)
		}
		if lo >= lw {
			return mkExtract(x.args[0], hi-lw, lo-lw)
		}
	case "bvand", "bvor", "bvxor":
		if x.size < 4096 {
			return mkBin(x.op, mkExtract(x.args[0], hi, lo), mkExtract(x.args[1], hi, lo))
		}
	case "bvshl":
		if c := x.args[1]; c.op == "const" && x.w <= 64 {
			s := int(c.k)
			if lo >= s {
				return mkExtract(x.args[0], hi-s, lo-s)
			}
			if hi < s {
				return mkConst(0, w)
			}
		}
	case "bvlshr":
		if c := x.args[1]; c.op == "const" && x.w <= 64 {
			s := int(c.k)
			if hi+s < x.w {
				return mkExtract(x.args[0], hi+s, lo+s)
			}
			if lo+s >= x.w {
				return mkConst(0, w)
			}
		}
	case "ite":
		if x.args[1].op == "const" && x.args[2].op == "const" {
			return mkIte(x.args[0], mkExtract(x.args[1], hi, lo), mkExtract(x.args[2], hi, lo))
		}
	}
	if x.w <= 64 {
		z, o := knownBits(x, 4)
		fm := mask(w)
		if ((z|o)>>uint(lo))&fm == fm {
			return mkConst((o>>uint(lo))&fm, w)
		}
	}
	t := node("extract", w, x)
	t.p1, t.p2 = hi, lo
	return t
}

// mkConcat: x is the high part.
func mkConcat(x, y *Term) *Term {
	if x.w == 0 || y.w == 0 {
		panic("mkConcat")
	}
	if x.op == "const" && y.op == "const" && x.w+y.w <= 64 {
		return mkConst(x.k<<uint(y.w)|y.k, x.w+y.w)
	}
	if x.op == "const" && x.k == 0 && x.w <= 64 {
		return mkZext(y, x.w)
	}
	if x.op == "extract" && y.op == "extract" && x.args[0] == y.args[0] && x.p2 == y.p1+1 {
		return mkExtract(x.args[0], x.p1, y.p2)
	}
	return node("concat", x.w+y.w, x, y)
}

// mkResize converts x to width w using sign or zero extension / truncation.
func mkResize(x *Term, w int, signed bool) *Term {
	switch {
	case x.w == w:
		return x
	case x.w > w:
		return mkExtract(x, w-1, 0)
	case signed:
		return mkSext(x, w-x.w)
	}
	return mkZext(x, w-x.w)
}

func mkUF(name string, w int, args ...*Term) *Term {
	t := node("uf", w, args...)
	t.name = name
	return t
}

// ---------------------------------------------------------------------------
// Evaluation under a model (variable name -> value). Values up to 128 bits.

type wide struct{ hi, lo uint64 }

type evaluator struct {
	model map[string]uint64
	memo  map[*Term]wide
	bad   map[*Term]bool // terms known not to be evaluable (contain UFs / >128 bits)
	fail  bool
}

func newEvaluator(model map[string]uint64) *evaluator {
	return &evaluator{model: model, memo: map[*Term]wide{}}
}

func maskWide(v wide, w int) wide {
	if w <= 64 {
		return wide{0, v.lo & mask(w)}
	}
	return wide{v.hi & mask(w-64), v.lo}
}

// evalBool / evalBV return ok=false if the term contains something the
// evaluator does not model (uninterpreted functions, > 128 bits).
func (e *evaluator) evalBool(t *Term) (bool, bool) {
	e.fail = false
	v := e.ev(t)
	return v.lo != 0, !e.fail
}

func (e *evaluator) evalBV(t *Term) (uint64, bool) {
	e.fail = false
	v := e.ev(t)
	return v.lo, !e.fail && t.w <= 64
}

func (e *evaluator) ev(t *Term) wide {
	if e.fail {
		return wide{} // sticky for the current top-level evaluation
	}
	if v, ok := e.memo[t]; ok {
		return v
	}
	if e.bad[t] {
		e.fail = true
		return wide{}
	}
	v := e.ev1(t)
	if !e.fail {
		e.memo[t] = v
	} else {
		if e.bad == nil {
			e.bad = map[*Term]bool{}
		}
		e.bad[t] = true
	}
	return v
}

func b2w(b bool) wide {
	if b {
		return wide{0, 1}
	}
	return wide{}
}

func (e *evaluator) ev1(t *Term) wide {
	if t.w > 128 {
		e.fail = true
		return wide{}
	}
	switch t.op {
	case "true":
		return wide{0, 1}
	case "false":
		return wide{}
	case "const":
		return wide{0, t.k}
	case "var":
		v, ok := e.model[t.name]
		if !ok {
			// unconstrained in the model: any value is fine, take 0 and remember it
			e.model[t.name] = 0
		}
		return wide{0, v}
	case "uf":
		e.fail = true
		return wide{}
	case "not":
		return b2w(e.ev(t.args[0]).lo == 0)
	case "and":
		a := e.ev(t.args[0])
		if e.fail || a.lo == 0 {
			return wide{}
		}
		return b2w(e.ev(t.args[1]).lo != 0)
	case "or":
		a := e.ev(t.args[0])
		if e.fail {
			return wide{}
		}
		if a.lo != 0 {
			return wide{0, 1}
		}
		return b2w(e.ev(t.args[1]).lo != 0)
	case "ite":
		c := e.ev(t.args[0])
		if e.fail {
			return wide{}
		}
		if c.lo != 0 {
			return e.ev(t.args[1])
		}
		return e.ev(t.args[2])
	case "=":
		a, b := e.ev(t.args[0]), e.ev(t.args[1])
		return b2w(a == b)
	case "zext":
		return e.ev(t.args[0])
	case "sext":
		a := e.ev(t.args[0])
		iw := t.args[0].w
		if iw > 64 {
			e.fail = true
			return wide{}
		}
		s := sext64(a.lo, iw)
		r := wide{0, uint64(s)}
		if s < 0 {
			r.hi = ^uint64(0)
		}
		return maskWide(r, t.w)
	case "extract":
		a := e.ev(t.args[0])
		lo := t.p2
		var r wide
		switch {
		case lo == 0:
			r = a
		case lo < 64:
			r = wide{a.hi >> uint(lo), a.lo>>uint(lo) | a.hi<<uint(64-lo)}
		default:
			r = wide{0, a.hi >> uint(lo-64)}
		}
		return maskWide(r, t.w)
	case "concat":
		a, b := e.ev(t.args[0]), e.ev(t.args[1])
		lw := t.args[1].w
		if t.w <= 64 {
			return wide{0, a.lo<<uint(lw) | b.lo}
		}
		if lw == 64 {
			return wide{a.lo, b.lo}
		}
		if lw < 64 {
			return maskWide(wide{a.hi<<uint(lw) | a.lo>>uint(64-lw), a.lo<<uint(lw) | b.lo}, t.w)
		}
		return maskWide(wide{a.lo<<uint(lw-64) | b.hi, b.lo}, t.w)
	case "bvneg":
		a := e.ev(t.args[0])
		if t.w > 64 {
			lo := -a.lo
			hi := ^a.hi
			if lo == 0 {
				hi++
			}
			return maskWide(wide{hi, lo}, t.w)
		}
		return wide{0, (-a.lo) & mask(t.w)}
	case "bvnot":
		a := e.ev(t.args[0])
		return maskWide(wide{^a.hi, ^a.lo}, t.w)
	case "bvult", "bvule", "bvslt", "bvsle":
		a, b := e.ev(t.args[0]), e.ev(t.args[1])
		w := t.args[0].w
		if w > 64 {
			if t.op == "bvult" || t.op == "bvule" {
				if a.hi != b.hi {
					return b2w(a.hi < b.hi)
				}
				if t.op == "bvult" {
					return b2w(a.lo < b.lo)
				}
				return b2w(a.lo <= b.lo)
			}
			e.fail = true
			return wide{}
		}
		r, _ := foldCmp(t.op, w, a.lo, b.lo)
		return b2w(r)
	}
	// binary bit-vector operations
	if len(t.args) == 2 {
		a, b := e.ev(t.args[0]), e.ev(t.args[1])
		if t.w <= 64 {
			if v, ok := foldBin(t.op, t.w, a.lo, b.lo); ok {
				return wide{0, v}
			}
		} else {
			switch t.op {
			case "bvadd":
				lo, c := bits.Add64(a.lo, b.lo, 0)
				hi, _ := bits.Add64(a.hi, b.hi, c)
				return maskWide(wide{hi, lo}, t.w)
			case "bvsub":
				lo, c := bits.Sub64(a.lo, b.lo, 0)
				hi, _ := bits.Sub64(a.hi, b.hi, c)
				return maskWide(wide{hi, lo}, t.w)
			case "bvmul":
				hi, lo := bits.Mul64(a.lo, b.lo)
				hi += a.hi*b.lo + a.lo*b.hi
				return maskWide(wide{hi, lo}, t.w)
			case "bvand":
				return wide{a.hi & b.hi, a.lo & b.lo}
			case "bvor":
				return wide{a.hi | b.hi, a.lo | b.lo}
			case "bvxor":
				return wide{a.hi ^ b.hi, a.lo ^ b.lo}
			}
		}
	}
	e.fail = true
	return wide{}
}

// ---------------------------------------------------------------------------
// SMT-LIB2 printing.

type printer struct {
	sb     strings.Builder
	names  map[*Term]string
	vars   map[string]int // declared variables -> width
	ufs    map[string]string
	order  []string // variable declaration order
	nextID int
	hasNL  bool // contains non-linear arithmetic (mul/div/rem by non-constant)
}

func newPrinter() *printer {
	return &printer{names: map[*Term]string{}, vars: map[string]int{}, ufs: map[string]string{}}
}

func sortOf(w int) string {
	if w == 0 {
		return "Bool"
	}
	return fmt.Sprintf("(_ BitVec %d)", w)
}

func constStr(v uint64, w int) string {
	if w%4 == 0 {
		return fmt.Sprintf("#x%0*x", w/4, v)
	}
	return fmt.Sprintf("(_ bv%d %d)", v, w)
}

// ref returns the textual reference to t, emitting definitions as needed.
func (p *printer) ref(t *Term) string {
	switch t.op {
	case "true", "false":
		return t.op
	case "const":
		return constStr(t.k, t.w)
	case "var":
		if _, ok := p.vars[t.name]; !ok {
			p.vars[t.name] = t.w
			p.order = append(p.order, t.name)
			fmt.Fprintf(&p.sb, "(declare-const %s %s)\n", t.name, sortOf(t.w))
		}
		return t.name
	}
	if n, ok := p.names[t]; ok {
		return n
	}
	// iterative post-order to avoid deep recursion on long chains
	type fr struct {
		t *Term
		i int
	}
	stack := []fr{{t, 0}}
	for len(stack) > 0 {
		top := &stack[len(stack)-1]
		if top.i < len(top.t.args) {
			a := top.t.args[top.i]
			top.i++
			if len(a.args) > 0 {
				if _, ok := p.names[a]; !ok {
					stack = append(stack, fr{a, 0})
				}
			}
			continue
		}
		cur := top.t
		stack = stack[:len(stack)-1]
		if _, ok := p.names[cur]; ok {
			continue
		}
		body := p.body(cur)
		p.nextID++
		n := fmt.Sprintf("t%d", p.nextID)
		fmt.Fprintf(&p.sb, "(define-fun %s () %s %s)\n", n, sortOf(cur.w), body)
		p.names[cur] = n
	}
	return p.names[t]
}

func (p *printer) body(t *Term) string {
	args := make([]string, len(t.args))
	for i, a := range t.args {
		args[i] = p.ref(a)
	}
	switch t.op {
	case "extract":
		return fmt.Sprintf("((_ extract %d %d) %s)", t.p1, t.p2, args[0])
	case "zext":
		return fmt.Sprintf("((_ zero_extend %d) %s)", t.p1, args[0])
	case "sext":
		return fmt.Sprintf("((_ sign_extend %d) %s)", t.p1, args[0])
	case "uf":
		sig := ""
		for _, a := range t.args {
			sig += sortOf(a.w) + " "
		}
		decl := fmt.Sprintf("(declare-fun %s (%s) %s)\n", t.name, strings.TrimSpace(sig), sortOf(t.w))
		if old, ok := p.ufs[t.name]; !ok {
			p.ufs[t.name] = decl
			// declarations must precede the definitions that use them; the
			// string builder is append-only and this definition has not been
			// written yet, so appending here is early enough.
			p.sb.WriteString(decl)
		} else if old != decl {
			panic("uninterpreted function " + t.name + " used at two signatures")
		}
		if len(args) == 0 {
			return t.name
		}
		return "(" + t.name + " " + strings.Join(args, " ") + ")"
	case "bvmul", "bvudiv", "bvurem", "bvsdiv", "bvsrem":
		if !t.args[0].isConst() && !t.args[1].isConst() {
			p.hasNL = true
		}
	}
	return "(" + t.op + " " + strings.Join(args, " ") + ")"
}
