package interp

// omap is the engine's only map representation: insertion-ordered (so that
// re-execution of a path is deterministic – Go's randomised iteration order
// would make decision prefixes diverge) and able to hold keys that contain
// symbolic scalars. Lookups with or against symbolic keys fork on equality
// with each candidate entry.

import (
	"bytes"
	"fmt"
	"go/types"
)

type omap struct {
	keyType types.Type
	keys    []value
	vals    []value
	dead    []bool
	n       int
	index   map[string]int // canonical string of fully concrete key -> slot
	symKeys int            // number of live keys that contain symbolic scalars
}

func newOmap(kt types.Type) *omap {
	return &omap{keyType: kt, index: map[string]int{}}
}

// keyString returns a canonical string for a fully concrete key; ok=false if
// the key contains symbolic parts.
func keyString(v value) (string, bool) {
	var buf bytes.Buffer
	ok := writeKey(&buf, v)
	return buf.String(), ok
}

func writeKey(buf *bytes.Buffer, v value) bool {
	switch v := v.(type) {
	case sym:
		return false
	case array:
		buf.WriteByte('[')
		for _, e := range v {
			if !writeKey(buf, e) {
				return false
			}
			buf.WriteByte(',')
		}
		buf.WriteByte(']')
	case structure:
		buf.WriteByte('{')
		for _, e := range v {
			if !writeKey(buf, e) {
				return false
			}
			buf.WriteByte(',')
		}
		buf.WriteByte('}')
	case iface:
		if v.t == nil {
			buf.WriteString("<nil>")
			return true
		}
		buf.WriteString(v.t.String())
		buf.WriteByte(':')
		return writeKey(buf, v.v)
	case string:
		fmt.Fprintf(buf, "%q", v)
	case *value:
		fmt.Fprintf(buf, "%p", v)
	default:
		fmt.Fprintf(buf, "%T:%v", v, v)
	}
	return true
}

func (m *omap) len() int {
	if m == nil {
		return 0
	}
	return m.n
}

// find returns the slot of key k, or -1. ex is used to fork when symbolic
// equality has to be decided.
func (m *omap) find(ex *Explorer, k value) int {
	if m == nil {
		return -1
	}
	ks, concrete := keyString(k)
	if concrete {
		if i, ok := m.index[ks]; ok {
			return i
		}
		if m.symKeys == 0 {
			return -1
		}
	}
	for i, ki := range m.keys {
		if m.dead[i] {
			continue
		}
		if concrete {
			if _, c2 := keyString(ki); c2 {
				continue // concrete keys differ (not in index under ks)
			}
		}
		eq := equalsSym(m.keyType, k, ki)
		if ex.Branch(eq) {
			return i
		}
	}
	return -1
}

func (m *omap) lookup(ex *Explorer, k value) (value, bool) {
	i := m.find(ex, k)
	if i < 0 {
		return nil, false
	}
	return m.vals[i], true
}

func (m *omap) insert(ex *Explorer, k, v value) {
	if i := m.find(ex, k); i >= 0 {
		m.vals[i] = v
		return
	}
	m.keys = append(m.keys, k)
	m.vals = append(m.vals, v)
	m.dead = append(m.dead, false)
	m.n++
	if ks, ok := keyString(k); ok {
		m.index[ks] = len(m.keys) - 1
	} else {
		m.symKeys++
	}
}

func (m *omap) delete(ex *Explorer, k value) {
	i := m.find(ex, k)
	if i < 0 {
		return
	}
	if ks, ok := keyString(m.keys[i]); ok {
		delete(m.index, ks)
	} else {
		m.symKeys--
	}
	m.dead[i] = true
	m.n--
}

func (m *omap) clear() {
	if m == nil {
		return
	}
	m.keys, m.vals, m.dead, m.n, m.symKeys = nil, nil, nil, 0, 0
	m.index = map[string]int{}
}

type omapIter struct {
	m *omap
	i int
}

func (it *omapIter) next() tuple {
	if it.m != nil {
		for it.i < len(it.m.keys) {
			i := it.i
			it.i++
			if !it.m.dead[i] {
				return tuple{true, it.m.keys[i], it.m.vals[i]}
			}
		}
	}
	return []value{false, nil, nil}
}

// equalsSym builds the term "x == y" for values of type t that may contain
// symbolic scalars.
func equalsSym(t types.Type, x, y value) *Term {
	if sx, ok := x.(sym); ok {
		return mkEq(sx.t, toSym(y).t)
	}
	if sy, ok := y.(sym); ok {
		return mkEq(toSym(x).t, sy.t)
	}
	switch x := x.(type) {
	case array:
		yy := y.(array)
		var te types.Type
		if t != nil {
			te = t.Underlying().(*types.Array).Elem()
		}
		r := termTrue
		for i := range x {
			r = mkAnd(r, equalsSym(te, x[i], yy[i]))
			if r.isFalse() {
				return r
			}
		}
		return r
	case structure:
		yy := y.(structure)
		var ts *types.Struct
		if t != nil {
			ts = t.Underlying().(*types.Struct)
		}
		r := termTrue
		for i := range x {
			var tf types.Type
			if ts != nil {
				if ts.Field(i).Name() == "_" {
					continue
				}
				tf = ts.Field(i).Type()
			}
			r = mkAnd(r, equalsSym(tf, x[i], yy[i]))
			if r.isFalse() {
				return r
			}
		}
		return r
	case iface:
		yy := y.(iface)
		if x.t == nil || yy.t == nil {
			return mkBool(x.t == nil && yy.t == nil)
		}
		if !types.Identical(x.t, yy.t) {
			return termFalse
		}
		return equalsSym(x.t, x.v, yy.v)
	}
	return mkBool(equals(t, x, y))
}
