package interp

// Snapshot/restore of the global state after package initialisation, so that
// every path starts from freshly initialised globals without re-running the
// initialisers (tens of thousands of SSA instructions for the larger packages).
// The value graph is copied preserving aliasing: pointers to elements of
// aggregates are remapped to the corresponding elements of the copies.

import (
	"unsafe"

	"golang.org/x/tools/go/ssa"
)

type cloner struct {
	cells map[*value]*value       // old cell address -> new cell address
	seq   map[unsafe.Pointer][]value // old backing array (data pointer) -> new backing (full capacity)
	maps  map[*omap]*omap
	ptrs  []*value // pointer targets seen in phase 1
	seenP map[*value]bool
}

func newCloner() *cloner {
	return &cloner{cells: map[*value]*value{}, seq: map[unsafe.Pointer][]value{}, maps: map[*omap]*omap{}, seenP: map[*value]bool{}}
}

// scan is phase 1: allocate copies of all aggregates reachable from v and
// register the address mapping of their elements.
func (c *cloner) scan(v value) {
	switch v := v.(type) {
	case array:
		c.scanSeq([]value(v))
	case structure:
		c.scanSeq([]value(v))
	case tuple:
		c.scanSeq([]value(v))
	case []value:
		c.scanSeq(v)
	case *value:
		if v != nil && !c.seenP[v] {
			c.seenP[v] = true
			c.ptrs = append(c.ptrs, v)
			c.scan(*v)
		}
	case iface:
		c.scan(v.v)
	case *omap:
		if v != nil && c.maps[v] == nil {
			n := &omap{keyType: v.keyType, n: v.n, symKeys: v.symKeys, index: make(map[string]int, len(v.index))}
			c.maps[v] = n
			for _, k := range v.keys {
				c.scan(k)
			}
			for _, x := range v.vals {
				c.scan(x)
			}
		}
	case *closure:
		if v != nil {
			for _, e := range v.Env {
				c.scan(e)
			}
		}
	}
}

func (c *cloner) scanSeq(s []value) {
	if cap(s) == 0 {
		return
	}
	full := s[:cap(s)]
	key := unsafe.Pointer(unsafe.SliceData(full))
	if _, ok := c.seq[key]; ok {
		return
	}
	n := make([]value, len(full))
	c.seq[key] = n
	for i := range full {
		c.cells[&full[i]] = &n[i]
	}
	for _, e := range full {
		c.scan(e)
	}
}

// finishPtrs gives every pointer target that is not an element of a scanned
// aggregate its own fresh cell.
func (c *cloner) finishPtrs() {
	for _, p := range c.ptrs {
		if _, ok := c.cells[p]; !ok {
			c.cells[p] = new(value)
		}
	}
}

// conv is phase 2: translate a value into the copied graph.
func (c *cloner) conv(v value) value {
	switch v := v.(type) {
	case array:
		return array(c.convSeq([]value(v)))
	case structure:
		return structure(c.convSeq([]value(v)))
	case tuple:
		return tuple(c.convSeq([]value(v)))
	case []value:
		if v == nil {
			return v
		}
		return c.convSeq(v)
	case *value:
		if v == nil {
			return v
		}
		if n, ok := c.cells[v]; ok {
			return n
		}
		return v
	case iface:
		return iface{t: v.t, v: c.conv(v.v)}
	case *omap:
		if v == nil {
			return v
		}
		return c.maps[v]
	case *closure:
		if v == nil {
			return v
		}
		n := &closure{Fn: v.Fn, Env: make([]value, len(v.Env))}
		for i, e := range v.Env {
			n.Env[i] = c.conv(e)
		}
		return n
	}
	return v
}

func (c *cloner) convSeq(s []value) []value {
	if cap(s) == 0 {
		if s == nil {
			return nil
		}
		return []value{}
	}
	full := s[:cap(s)]
	key := unsafe.Pointer(unsafe.SliceData(full))
	n := c.seq[key]
	return n[:len(s):cap(s)]
}

// fill writes the translated contents into every copied aggregate, cell and map.
func (c *cloner) fill(old map[unsafe.Pointer][]value) {
	for key, n := range c.seq {
		o := old[key]
		for i := range o {
			n[i] = c.conv(o[i])
		}
	}
	for _, p := range c.ptrs {
		n := c.cells[p]
		// cells that are elements of aggregates were filled above
		if *n == nil {
			*n = c.conv(*p)
		}
	}
	for o, n := range c.maps {
		n.keys = make([]value, len(o.keys))
		n.vals = make([]value, len(o.vals))
		n.dead = append([]bool(nil), o.dead...)
		for i := range o.keys {
			n.keys[i] = c.conv(o.keys[i])
			n.vals[i] = c.conv(o.vals[i])
		}
		for k, i := range o.index {
			n.index[k] = i
		}
	}
}

// cloneGlobals copies the contents of all global cells (src) into a new set
// of contents, preserving aliasing. Pointers to the global cells themselves
// stay pointing to the (stable) cells.
func cloneGlobals(globals map[*ssa.Global]*value) map[*ssa.Global]value {
	c := newCloner()
	for _, cell := range globals {
		c.cells[cell] = cell
		c.seenP[cell] = true
	}
	return cloneWith(c, globals)
}

func cloneWith(c *cloner, globals map[*ssa.Global]*value) map[*ssa.Global]value {
	oldSeq := map[unsafe.Pointer][]value{}
	for _, cell := range globals {
		c.scan(*cell)
	}
	c.finishPtrs()
	// remember old backings for fill (scanSeq keyed them by data pointer)
	var collect func(v value)
	seen := map[unsafe.Pointer]bool{}
	seenP := map[*value]bool{}
	seenM := map[*omap]bool{}
	collect = func(v value) {
		var s []value
		switch v := v.(type) {
		case array:
			s = v
		case structure:
			s = v
		case tuple:
			s = v
		case []value:
			s = v
		case *value:
			if v != nil && !seenP[v] {
				seenP[v] = true
				collect(*v)
			}
			return
		case iface:
			collect(v.v)
			return
		case *omap:
			if v != nil && !seenM[v] {
				seenM[v] = true
				for _, k := range v.keys {
					collect(k)
				}
				for _, x := range v.vals {
					collect(x)
				}
			}
			return
		case *closure:
			if v != nil {
				for _, e := range v.Env {
					collect(e)
				}
			}
			return
		default:
			return
		}
		if cap(s) == 0 {
			return
		}
		full := s[:cap(s)]
		key := unsafe.Pointer(unsafe.SliceData(full))
		if seen[key] {
			return
		}
		seen[key] = true
		oldSeq[key] = full
		for _, e := range full {
			collect(e)
		}
	}
	for p := range c.seenP {
		seenP[p] = true // the live global cells: not to be followed
	}
	for _, cell := range globals {
		collect(*cell)
	}
	c.fill(oldSeq)
	out := make(map[*ssa.Global]value, len(globals))
	for g, cell := range globals {
		out[g] = c.conv(*cell)
	}
	return out
}

// cloneGlobalsInto copies snapshot contents for installation into cells: like
// cloneGlobals, but the source is a contents map and pointers to the global
// cells keep pointing to the live cells.
func cloneGlobalsInto(snap map[*ssa.Global]value, cells map[*ssa.Global]*value) map[*ssa.Global]value {
	src := make(map[*ssa.Global]*value, len(snap))
	for g, v := range snap {
		cell := cells[g]
		// temporarily view the snapshot content through the live cell address
		// so that pointers to the cell are recognised
		_ = cell
		v := v
		src[g] = &v
	}
	// pointers to live cells inside the snapshot already point at the live
	// cells (cloneGlobals kept them), so seed the identity mapping for those
	c := newCloner()
	for _, cell := range cells {
		c.cells[cell] = cell
		c.seenP[cell] = true
	}
	return cloneWith(c, src)
}

// GlobalSizes reports the number of values reachable from each global (debugging).
func globalSizes(globals map[*ssa.Global]value) map[string]int {
	out := map[string]int{}
	for g, v := range globals {
		seen := map[unsafe.Pointer]bool{}
		seenP := map[*value]bool{}
		n := 0
		var walk func(v value)
		walk = func(v value) {
			n++
			var s []value
			switch v := v.(type) {
			case array:
				s = v
			case structure:
				s = v
			case []value:
				s = v
			case *value:
				if v != nil && !seenP[v] {
					seenP[v] = true
					walk(*v)
				}
				return
			case iface:
				walk(v.v)
				return
			case *omap:
				if v != nil {
					for i := range v.keys {
						walk(v.keys[i])
						walk(v.vals[i])
					}
				}
				return
			default:
				return
			}
			if cap(s) == 0 {
				return
			}
			key := unsafe.Pointer(unsafe.SliceData(s[:cap(s)]))
			if seen[key] {
				return
			}
			seen[key] = true
			for _, e := range s[:cap(s)] {
				walk(e)
			}
		}
		walk(v)
		out[g.String()] = n
	}
	return out
}
