package interp

// Symbolic scalars for the ssa interpreter: a sym is a boolean or an integer
// of a definite Go kind whose value is an SMT term.

import (
	"fmt"
	"go/token"
	"go/types"
)

type sym struct {
	t *Term
	k types.BasicKind // types.Bool, types.Int ... types.Uintptr
}

func isSym(v value) bool { _, ok := v.(sym); return ok }

func kindBits(k types.BasicKind) (bits int, signed bool) {
	switch k {
	case types.Bool:
		return 0, false
	case types.Int, types.Int64:
		return 64, true
	case types.Int8:
		return 8, true
	case types.Int16:
		return 16, true
	case types.Int32:
		return 32, true
	case types.Uint, types.Uint64, types.Uintptr:
		return 64, false
	case types.Uint8:
		return 8, false
	case types.Uint16:
		return 16, false
	case types.Uint32:
		return 32, false
	}
	panic(fmt.Sprintf("kindBits: unsupported kind %d", k))
}

func (s sym) signed() bool { _, sg := kindBits(s.k); return sg }

// kindOfValue returns the Go kind of a concrete integer/bool value.
func kindOfValue(v value) (types.BasicKind, bool) {
	switch v.(type) {
	case bool:
		return types.Bool, true
	case int:
		return types.Int, true
	case int8:
		return types.Int8, true
	case int16:
		return types.Int16, true
	case int32:
		return types.Int32, true
	case int64:
		return types.Int64, true
	case uint:
		return types.Uint, true
	case uint8:
		return types.Uint8, true
	case uint16:
		return types.Uint16, true
	case uint32:
		return types.Uint32, true
	case uint64:
		return types.Uint64, true
	case uintptr:
		return types.Uintptr, true
	}
	return 0, false
}

func basicKindOf(t types.Type) (types.BasicKind, bool) {
	b, ok := t.Underlying().(*types.Basic)
	if !ok {
		return 0, false
	}
	k := b.Kind()
	switch k {
	case types.UntypedBool:
		k = types.Bool
	case types.UntypedInt:
		k = types.Int
	case types.UntypedRune:
		k = types.Int32
	}
	switch k {
	case types.Bool, types.Int, types.Int8, types.Int16, types.Int32, types.Int64,
		types.Uint, types.Uint8, types.Uint16, types.Uint32, types.Uint64, types.Uintptr:
		return k, true
	}
	return 0, false
}

// concreteOfKind builds the Go value of kind k from raw bits.
func concreteOfKind(k types.BasicKind, u uint64) value {
	switch k {
	case types.Bool:
		return u != 0
	case types.Int:
		return int(u)
	case types.Int8:
		return int8(u)
	case types.Int16:
		return int16(u)
	case types.Int32:
		return int32(u)
	case types.Int64:
		return int64(u)
	case types.Uint:
		return uint(u)
	case types.Uint8:
		return uint8(u)
	case types.Uint16:
		return uint16(u)
	case types.Uint32:
		return uint32(u)
	case types.Uint64:
		return u
	case types.Uintptr:
		return uintptr(u)
	}
	panic("concreteOfKind")
}

// toSym lifts a concrete bool/int to a sym (identity on syms).
func toSym(v value) sym {
	if s, ok := v.(sym); ok {
		return s
	}
	k, ok := kindOfValue(v)
	if !ok {
		panic(fmt.Sprintf("toSym: unsupported %T", v))
	}
	if k == types.Bool {
		return sym{mkBool(v.(bool)), k}
	}
	bits, signed := kindBits(k)
	var u uint64
	if signed {
		u = uint64(asInt64(v))
	} else {
		u = asUint64(v)
	}
	return sym{mkConst(u, bits), k}
}

// simplify returns a concrete Go value if s is constant.
func simplify(s sym) value {
	switch s.t.op {
	case "true":
		return true
	case "false":
		return false
	case "const":
		return concreteOfKind(s.k, s.t.k)
	}
	return s
}

func boolSym(t *Term) value { return simplify(sym{t, types.Bool}) }

// symBinop implements binop for the case where at least one operand is sym.
// Division by zero and negative shift counts are checked by the caller.
func symBinop(op token.Token, xv, yv value) value {
	x := toSym(xv)
	if x.k == types.Bool {
		y := toSym(yv)
		switch op {
		case token.EQL:
			return boolSym(mkEq(x.t, y.t))
		case token.NEQ:
			return boolSym(mkNot(mkEq(x.t, y.t)))
		case token.AND, token.LAND:
			return boolSym(mkAnd(x.t, y.t))
		case token.OR, token.LOR:
			return boolSym(mkOr(x.t, y.t))
		case token.XOR:
			return boolSym(mkXorB(x.t, y.t))
		}
		panic("symBinop bool op " + op.String())
	}
	bits, signed := kindBits(x.k)
	if op == token.SHL || op == token.SHR {
		y := toSym(yv)
		ybits, _ := kindBits(y.k)
		// Go: a count >= width gives 0 (or sign fill). Saturate the count.
		var c *Term
		switch {
		case ybits > bits:
			c = mkIte(mkCmp("bvult", y.t, mkConst(uint64(bits), ybits)), mkExtract(y.t, bits-1, 0), mkConst(uint64(bits), bits))
		case ybits < bits:
			c = mkZext(y.t, bits-ybits)
		default:
			c = y.t
		}
		f := "bvshl"
		if op == token.SHR {
			f = "bvlshr"
			if signed {
				f = "bvashr"
			}
		}
		return simplify(sym{mkBin(f, x.t, c), x.k})
	}
	y := toSym(yv)
	if y.k != x.k {
		// ssa guarantees identical types, except untyped constant operands
		yb, _ := kindBits(y.k)
		if yb != bits {
			panic(fmt.Sprintf("symBinop %s: operand kinds %d %d", op, x.k, y.k))
		}
	}
	arith := func(f string) value { return simplify(sym{mkBin(f, x.t, y.t), x.k}) }
	cmp := func(fs, fu string, swap bool) value {
		f := fu
		if signed {
			f = fs
		}
		if swap {
			return boolSym(mkCmp(f, y.t, x.t))
		}
		return boolSym(mkCmp(f, x.t, y.t))
	}
	switch op {
	case token.ADD:
		return arith("bvadd")
	case token.SUB:
		return arith("bvsub")
	case token.MUL:
		return arith("bvmul")
	case token.AND:
		return arith("bvand")
	case token.OR:
		return arith("bvor")
	case token.XOR:
		return arith("bvxor")
	case token.AND_NOT:
		return simplify(sym{mkBin("bvand", x.t, mkBvNot(y.t)), x.k})
	case token.QUO:
		if signed {
			return arith("bvsdiv")
		}
		return arith("bvudiv")
	case token.REM:
		if signed {
			return arith("bvsrem")
		}
		return arith("bvurem")
	case token.EQL:
		return boolSym(mkEq(x.t, y.t))
	case token.NEQ:
		return boolSym(mkNot(mkEq(x.t, y.t)))
	case token.LSS:
		return cmp("bvslt", "bvult", false)
	case token.LEQ:
		return cmp("bvsle", "bvule", false)
	case token.GTR:
		return cmp("bvslt", "bvult", true)
	case token.GEQ:
		return cmp("bvsle", "bvule", true)
	}
	panic("symBinop: unsupported op " + op.String())
}

func symUnop(op token.Token, xv value) value {
	x := xv.(sym)
	switch op {
	case token.NOT:
		return boolSym(mkNot(x.t))
	case token.SUB:
		return simplify(sym{mkNeg(x.t), x.k})
	case token.XOR:
		return simplify(sym{mkBvNot(x.t), x.k})
	case token.ADD:
		return x
	}
	panic("symUnop: unsupported " + op.String())
}

// symConv converts a symbolic integer to integer type tDst.
func symConv(tDst types.Type, xv value) value {
	x := xv.(sym)
	dk, ok := basicKindOf(tDst)
	if !ok {
		panic("symConv: unsupported destination " + tDst.String())
	}
	if dk == types.Bool || x.k == types.Bool {
		if dk != x.k {
			panic("symConv: bool/int conversion")
		}
		return x
	}
	db, _ := kindBits(dk)
	return simplify(sym{mkResize(x.t, db, x.signed()), dk})
}

// symIteValue selects between two values of the same dynamic shape.
func symIteValue(c *Term, a, b value) value {
	if c.isTrue() {
		return a
	}
	if c.isFalse() {
		return b
	}
	switch a := a.(type) {
	case array:
		bb := b.(array)
		r := make(array, len(a))
		for i := range a {
			r[i] = symIteValue(c, a[i], bb[i])
		}
		return r
	case structure:
		bb := b.(structure)
		r := make(structure, len(a))
		for i := range a {
			r[i] = symIteValue(c, a[i], bb[i])
		}
		return r
	}
	_, aok := kindOfValue(a)
	_, bok := kindOfValue(b)
	if (aok || isSym(a)) && (bok || isSym(b)) {
		if !isSym(a) && !isSym(b) && a == b {
			return a
		}
		sa, sb := toSym(a), toSym(b)
		return simplify(sym{mkIte(c, sa.t, sb.t), sa.k})
	}
	// non-scalar leaves (pointers, slices, strings, interfaces ...): must be identical
	if eqPlain(a, b) {
		return a
	}
	panic(needFork{})
}

// needFork is raised when an ITE merge is impossible and the caller must
// concretise the index instead.
type needFork struct{}

func eqPlain(a, b value) (r bool) {
	defer func() {
		if recover() != nil {
			r = false
		}
	}()
	switch a := a.(type) {
	case *value:
		bb, ok := b.(*value)
		return ok && a == bb
	case string:
		bb, ok := b.(string)
		return ok && a == bb
	case []value:
		bb, ok := b.([]value)
		if !ok || len(a) != len(bb) || cap(a) != cap(bb) {
			return false
		}
		if len(a) == 0 {
			return cap(a) == 0 && (a == nil) == (bb == nil)
		}
		return &a[0] == &bb[0]
	case iface:
		bb, ok := b.(iface)
		if !ok {
			return false
		}
		if a.t == nil || bb.t == nil {
			return a.t == nil && bb.t == nil
		}
		return types.Identical(a.t, bb.t) && eqPlain(a.v, bb.v)
	case *omap:
		bb, ok := b.(*omap)
		return ok && a == bb
	case float64, float32:
		return a == b
	case *closure:
		bb, ok := b.(*closure)
		return ok && a == bb
	}
	return false
}

// symElemPtr is the address of one of several storage cells selected by a
// symbolic index (already known to be in range): cells[k] is the candidate for
// idx == lo+k. It arises from a[i] with symbolic i, and is propagated through
// field selection and constant indexing (&a[i].f, &a[i][3]). Loads produce an
// ITE chain, stores a guarded write to every candidate cell.
type symElemPtr struct {
	cells []*value
	idx   *Term // 64-bit
	lo    int
}

func (p symElemPtr) cond(k int) *Term { return mkEq(p.idx, mkConst(uint64(p.lo+k), 64)) }

func (p symElemPtr) load(T types.Type) value {
	n := len(p.cells)
	res := load(T, p.cells[n-1])
	for k := n - 2; k >= 0; k-- {
		res = symIteValue(p.cond(k), load(T, p.cells[k]), res)
	}
	return res
}

func (p symElemPtr) store(T types.Type, v value) {
	for k, c := range p.cells {
		store(T, c, symIteValue(p.cond(k), v, load(T, c)))
	}
}

// field returns &p->field.
func (p symElemPtr) field(f int) symElemPtr {
	q := symElemPtr{cells: make([]*value, len(p.cells)), idx: p.idx, lo: p.lo}
	for k, c := range p.cells {
		q.cells[k] = &(*c).(structure)[f]
	}
	return q
}

// index returns &(*p)[i] for a concrete i (p points to arrays).
func (p symElemPtr) index(i int64) symElemPtr {
	q := symElemPtr{cells: make([]*value, len(p.cells)), idx: p.idx, lo: p.lo}
	for k, c := range p.cells {
		a := (*c).(array)
		if i < 0 || i >= int64(len(a)) {
			panic(runtimePanic(fmt.Sprintf("index out of range [%d] with length %d", i, len(a))))
		}
		q.cells[k] = &a[i]
	}
	return q
}

// containsSym reports whether v (recursively through arrays/structs/ifaces)
// holds a symbolic scalar.
func containsSym(v value) bool {
	switch v := v.(type) {
	case sym:
		return true
	case array:
		for _, e := range v {
			if containsSym(e) {
				return true
			}
		}
	case structure:
		for _, e := range v {
			if containsSym(e) {
				return true
			}
		}
	case iface:
		return containsSym(v.v)
	}
	return false
}
