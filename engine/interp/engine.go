package interp

// Engine glue: interpreter set-up, per-path re-initialisation, the worker loop
// that explores one harness, and small helpers used by the patched
// interpreter core.

import (
	"fmt"
	"go/token"
	"go/types"
	"os"
	"runtime"
	"runtime/debug"
	"sort"
	"strings"
	"sync"
	"time"

	"golang.org/x/tools/go/ssa"
)

var progress = os.Getenv("GOSYM_PROGRESS") != ""

const RepoPath = "github.com/New-JAMneration/JAM-Protocol"

// maxAlloc is the largest slice the engine will materialise; the Go run time
// would either fail (len out of range) or exhaust memory far beyond it.
const maxAlloc = 1 << 22

// runtimePanic is a Go run-time error raised by the target program (index
// out of range, nil dereference, division by zero, ...).
type runtimePanic string

func (p runtimePanic) Error() string { return "runtime error: " + string(p) }

func mustDeref(t types.Type) types.Type {
	if p, ok := t.Underlying().(*types.Pointer); ok {
		return p.Elem()
	}
	panic("mustDeref: not a pointer: " + t.String())
}

func IsRepoPkg(path string) bool { return strings.HasPrefix(path, RepoPath) }

func IsRepoPkgFn(fn *ssa.Function) bool {
	for fn.Parent() != nil {
		fn = fn.Parent()
	}
	return fn.Pkg != nil && IsRepoPkg(fn.Pkg.Pkg.Path())
}

// InitAllowed says which packages' init functions are interpreted.
var InitAllowed = func(path string) bool {
	if IsRepoPkg(path) {
		return true
	}
	switch path {
	case "math/bits", "io", "unicode/utf8", "encoding/binary", "bytes", "strings", "sort", "slices", "maps", "math", "unicode", "strconv", "cmp", "iter":
		return true
	}
	return false
}

// Stubbed says which functions are replaced by "return zero values".
var Stubbed = func(name string) bool {
	for _, p := range []string{"time.", "(time.", "(*time.", "runtime.", "os.", "(*os.", "log.", "(*log.",
		RepoPath + "/logger.", "(*" + RepoPath + "/logger.",
		"(*sync.Mutex)", "(*sync.RWMutex)", "(*sync.WaitGroup)", "(*sync.Cond)", "sync.runtime", "sync/atomic.", "(*sync/atomic.",
		"fmt.Print", "fmt.Fprint", "(*sync.Map)",
		RepoPath + "/internal/utilities/timing.", "(*" + RepoPath + "/internal/utilities/timing.",
	} {
		if strings.HasPrefix(name, p) {
			return true
		}
	}
	return false
}

func stubClass(name string) string {
	switch {
	case strings.Contains(name, "/logger."):
		return "logger.* (no-op)"
	case strings.HasPrefix(name, "time.") || strings.HasPrefix(name, "(time.") || strings.HasPrefix(name, "(*time."):
		return "time.* (zero value)"
	case strings.Contains(name, "sync"):
		return "sync.* (no-op, single goroutine)"
	case strings.HasPrefix(name, "fmt."):
		return "fmt printing (no-op)"
	}
	i := strings.LastIndex(name, ".")
	if i > 0 {
		return name[:i] + ".* (zero value)"
	}
	return name
}

func zeroResults(fn *ssa.Function) value {
	res := fn.Signature.Results()
	switch res.Len() {
	case 0:
		return nil
	case 1:
		return zero(res.At(0).Type())
	}
	t := make(tuple, res.Len())
	for i := range t {
		t[i] = zero(res.At(i).Type())
	}
	return t
}

func zeroLike(v value) value {
	switch v := v.(type) {
	case sym:
		return concreteOfKind(v.k, 0)
	case array:
		r := make(array, len(v))
		for i := range v {
			r[i] = zeroLike(v[i])
		}
		return r
	case structure:
		r := make(structure, len(v))
		for i := range v {
			r[i] = zeroLike(v[i])
		}
		return r
	case bool:
		return false
	case string:
		return ""
	case *value:
		return (*value)(nil)
	case []value:
		return []value(nil)
	case iface:
		return iface{}
	case *omap:
		return (*omap)(nil)
	case float64:
		return float64(0)
	case float32:
		return float32(0)
	}
	if k, ok := kindOfValue(v); ok {
		return concreteOfKind(k, 0)
	}
	panic(fmt.Sprintf("zeroLike: %T", v))
}

func concretizeOpt(ex *Explorer, v value) value {
	if v == nil {
		return nil
	}
	return ex.Concretize(v)
}

func checkSliceBounds(l, h, m int64, capv int, has3 bool) {
	if has3 {
		if m < 0 || m > int64(capv) {
			panic(runtimePanic(fmt.Sprintf("slice bounds out of range [::%d] with capacity %d", m, capv)))
		}
		if h < 0 || h > m {
			panic(runtimePanic(fmt.Sprintf("slice bounds out of range [:%d:%d]", h, m)))
		}
	} else if h < 0 || h > int64(capv) {
		panic(runtimePanic(fmt.Sprintf("slice bounds out of range [:%d] with capacity %d", h, capv)))
	}
	if l < 0 || l > h {
		panic(runtimePanic(fmt.Sprintf("slice bounds out of range [%d:%d]", l, h)))
	}
}

// SymIndexLimit is the largest aggregate indexed symbolically by an ITE chain;
// beyond it the index is concretised.
var SymIndexLimit = 512

// indexAddr returns &elems[idx], a *value for concrete idx or a symElemPtr.
func indexAddr(fr *frame, elems []value, idx value) value {
	si, ok := idx.(sym)
	if !ok {
		i := asInt64(idx)
		if i < 0 || i >= int64(len(elems)) {
			panic(runtimePanic(fmt.Sprintf("index out of range [%d] with length %d", i, len(elems))))
		}
		return &elems[i]
	}
	ex := fr.i.ex
	i64 := mkResize(si.t, 64, si.signed())
	inb := mkCmp("bvult", i64, mkConst(uint64(len(elems)), 64))
	if !ex.Branch(inb) {
		panic(runtimePanic(fmt.Sprintf("index out of range [symbolic] with length %d", len(elems))))
	}
	if len(elems) > SymIndexLimit || !scalarElems(elems) {
		i := asInt64(ex.Concretize(sym{i64, types.Uint64}))
		return &elems[i]
	}
	lo, hi := 0, len(elems)-1
	if len(elems) > 128 {
		lo, hi = ex.feasibleRange(i64, 0, len(elems)-1)
	}
	if lo == hi {
		return &elems[lo]
	}
	cells := make([]*value, hi-lo+1)
	for k := range cells {
		cells[k] = &elems[lo+k]
	}
	return symElemPtr{cells: cells, idx: i64, lo: lo}
}

// scalarElems reports whether an ITE merge over the elements is possible
// (scalars and aggregates of scalars).
func scalarElems(elems []value) bool {
	if len(elems) == 0 {
		return true
	}
	return scalarShape(elems[0])
}

func scalarShape(v value) bool {
	switch v := v.(type) {
	case sym:
		return true
	case array:
		return len(v) == 0 || scalarShape(v[0])
	case structure:
		for _, f := range v {
			if !scalarShape(f) {
				return false
			}
		}
		return true
	}
	_, ok := kindOfValue(v)
	return ok
}

// feasibleRange narrows [lo, hi] for a 64-bit index term by binary search
// with solver queries (unknown answers keep the range wide).
func (e *Explorer) feasibleRange(idx *Term, lo, hi int) (int, int) {
	if e.pos < len(e.prefix) {
		// must be deterministic on replay: recompute with the same queries
	}
	feasible := func(a, b int) bool {
		c := mkAnd(mkCmp("bvule", mkConst(uint64(a), 64), idx), mkCmp("bvule", idx, mkConst(uint64(b), 64)))
		r, _ := e.solver.Check(append(append([]*Term{}, e.pc...), c), "feas")
		return r != "unsat"
	}
	// lowest feasible
	l, h := lo, hi
	for l < h {
		mid := (l + h) / 2
		if feasible(l, mid) {
			h = mid
		} else {
			l = mid + 1
		}
	}
	newLo := l
	l, h = newLo, hi
	for l < h {
		mid := (l + h + 1) / 2
		if feasible(mid, h) {
			l = mid
		} else {
			h = mid - 1
		}
	}
	return newLo, l
}

// Allocation accounting (C03/C14): the harness may declare a budget.
func (e *Explorer) noteAlloc(n int64, instr ssa.Instruction) {
	e.allocTotal += n
	if e.allocBudget > 0 && e.allocTotal > e.allocBudget {
		panic(runtimePanic(fmt.Sprintf("zz-alloc-budget exceeded: %d elements allocated, budget %d", e.allocTotal, e.allocBudget)))
	}
}

// splitHugeAlloc handles a symbolic allocation size under a declared budget:
// the path on which the size exceeds what is left of the budget ends in the
// budget panic (with the size pushed beyond what the Go run time accepts when
// that is feasible, so that the native replay panics instead of allocating);
// the other path continues with a size within the budget.
func (e *Explorer) splitHugeAlloc(n value) {
	s, ok := n.(sym)
	if !ok || e.allocBudget <= 0 {
		return
	}
	bits, _ := kindBits(s.k)
	left := e.allocBudget - e.allocTotal
	if left < 0 {
		left = 0
	}
	if bits < 64 && uint64(left) >= uint64(1)<<uint(bits) {
		return // the size type cannot reach the budget
	}
	over := mkCmp("bvult", mkConst(uint64(left), bits), s.t)
	if e.Branch(over) {
		if bits == 64 {
			huge := mkCmp("bvult", mkConst(1<<48, bits), s.t)
			if r, m := e.solver.Check(append(append([]*Term{}, e.pc...), huge), "feas"); r == "sat" {
				e.addPC(huge)
				e.setModel(m)
			}
		}
		e.allocTotal = e.allocBudget + 1
		panic(runtimePanic(fmt.Sprintf("zz-alloc-budget exceeded: symbolic allocation size can exceed the remaining budget %d", left)))
	}
}

// maxCells bounds what one path may materialise (interpreter memory, not a
// property of the target): beyond it the path ends as inconclusive.
const maxCells = 1 << 22

func (e *Explorer) noteCells(n int64) {
	e.cells += n
	if e.cells > maxCells {
		panic(pathAbort{"budget", fmt.Sprintf("path materialises more than %d values", maxCells)})
	}
}

// cellCount is the number of scalar cells of a zero value of t.
func cellCount(t types.Type) int64 {
	switch u := t.Underlying().(type) {
	case *types.Struct:
		var n int64 = 1
		for i := 0; i < u.NumFields(); i++ {
			n += cellCount(u.Field(i).Type())
		}
		return n
	case *types.Array:
		return 1 + u.Len()*cellCount(u.Elem())
	}
	return 1
}

func (e *Explorer) noteAppend(l, c, add int) {
	if l+add > c {
		e.noteAlloc(int64(l+add), nil)
	}
}

// ---------------------------------------------------------------------------

// Machine is one worker: an interpreter with its own globals, explorer and
// solver process.
type Machine struct {
	i            *interpreter
	snapshot     map[*ssa.Global]value
	snapshotOnce map[string]bool
}

// NewMachine prepares an interpreter over prog. mainPkg is only used to find
// the package initialisers.
func NewMachine(prog *ssa.Program, stats *SolverStats, tmpDir string, incMs, shotSec int) *Machine {
	i := &interpreter{
		prog:       prog,
		globals:    make(map[*ssa.Global]*value),
		sizes:      &types.StdSizes{WordSize: 8, MaxAlign: 8},
		goroutines: 1,
		overrides:  map[string]value{},
	}
	if runtimePkg := prog.ImportedPackage("runtime"); runtimePkg != nil {
		i.runtimeErrorString = runtimePkg.Type("errorString").Object().Type()
	}
	initReflect(i)
	i.ex = &Explorer{stats: stats}
	i.ex.solver = NewSolver(stats, tmpDir, incMs, shotSec)
	m := &Machine{i: i}
	i.ex.where = func() string { return m.targetStack(3) }
	return m
}

func (m *Machine) Close() { m.i.ex.solver.Close() }

func (m *Machine) Solver() *Solver { return m.i.ex.solver }

// resetGlobals gives the path freshly initialised globals. The first call on a
// machine zeroes everything and runs the package initialisers, then snapshots
// the result; later calls restore a copy of the snapshot (aliasing-preserving
// deep copy), which is much cheaper than re-running the initialisers.
func (m *Machine) resetGlobals(root *ssa.Package) {
	i := m.i
	if m.snapshot == nil || os.Getenv("GOSYM_NOSNAPSHOT") != "" {
		for g, cell := range i.globals {
			if g.Pkg != nil && !InitAllowed(g.Pkg.Pkg.Path()) && !touchedOutsideInit(g) {
				continue // never initialised by us, still zero
			}
			*cell = zero(mustDeref(g.Type()))
		}
		call(i, nil, token.NoPos, root.Func("init"), nil)
		m.snapshot = cloneGlobals(i.globals)
		if os.Getenv("GOSYM_GLOBALS") != "" {
			sz := globalSizes(m.snapshot)
			type kv struct {
				k string
				n int
			}
			var l []kv
			tot := 0
			for k, n := range sz {
				l = append(l, kv{k, n})
				tot += n
			}
			sort.Slice(l, func(a, b int) bool { return l[a].n > l[b].n })
			fmt.Fprintf(os.Stderr, "globals: %d, values: %d\n", len(l), tot)
			for j := 0; j < 25 && j < len(l); j++ {
				fmt.Fprintf(os.Stderr, "  %8d %s\n", l[j].n, l[j].k)
			}
		}
		m.snapshotOnce = cloneOnce(i.onceDone)
		return
	}
	// globals created lazily after the snapshot was taken are re-zeroed
	for g, cell := range i.globals {
		if _, ok := m.snapshot[g]; !ok {
			*cell = zero(mustDeref(g.Type()))
		}
	}
	// copy the snapshot (so it stays pristine) with the stable cells as targets
	fresh := cloneGlobalsInto(m.snapshot, i.globals)
	for g, v := range fresh {
		*i.globals[g] = v
	}
	i.onceDone = cloneOnce(m.snapshotOnce)
}

func cloneOnce(m map[string]bool) map[string]bool {
	n := make(map[string]bool, len(m))
	for k, v := range m {
		n[k] = v
	}
	return n
}

// touchedOutsideInit: globals of packages whose init we skip can still be
// written by interpreted code of that package (rare); be conservative for
// small ones and skip only the big read-only tables.
func touchedOutsideInit(g *ssa.Global) bool {
	switch t := mustDeref(g.Type()).Underlying().(type) {
	case *types.Array:
		return t.Len() <= 64
	}
	return true
}

// Explore runs harness fn (a func()) over all paths of run, as one of
// possibly several workers sharing run.
func (m *Machine) Explore(run *HarnessRun, root *ssa.Package, fn *ssa.Function) {
	ex := m.i.ex
	ex.run = run
	for {
		w, ok := run.next()
		if !ok {
			return
		}
		ex.reset(w)
		tp := time.Now()
		end := m.runPath(root, fn)
		end.Path = pathString(ex.decisions)
		if progress {
			fmt.Fprintf(os.Stderr, "  [%s] path %q -> %s %s (%d obligations, %v)\n", run.Name, end.Path, end.Status, end.Detail, len(ex.obligations), time.Since(tp).Round(time.Millisecond))
		}
		ex.merge(end)
		run.done()
	}
}

func (m *Machine) runPath(root *ssa.Package, fn *ssa.Function) (end PathEnd) {
	ex := m.i.ex
	defer func() {
		r := recover()
		if r == nil {
			return
		}
		switch r := r.(type) {
		case pathAbort:
			end = PathEnd{Status: r.status, Detail: r.why}
		case targetPanic:
			msg := "panic: " + safeToString(r.v)
			st := m.targetStack(6)
			ex.goPanic(msg, st)
			end = PathEnd{Status: "go-panic", Detail: msg + " @ " + st}
		case runtimePanic:
			st := m.targetStack(6)
			ex.goPanic(r.Error(), st)
			end = PathEnd{Status: "go-panic", Detail: r.Error() + " @ " + st}
		case engineError:
			end = PathEnd{Status: "engine-error", Detail: r.msg + " @ " + m.targetStack(6)}
		case needFork:
			end = PathEnd{Status: "engine-error", Detail: "ITE merge over non-scalar values"}
		case runtime.Error:
			// a Go run-time error inside the engine while interpreting: most
			// often the target's own error surfacing through the interpreter's
			// data structures, but possibly an engine defect; never trusted
			// without native replay.
			msg := "runtime error (unclassified, via interpreter): " + r.Error()
			if os.Getenv("GOSYM_DEBUG") != "" {
				fmt.Fprintln(os.Stderr, msg)
				fmt.Fprintln(os.Stderr, string(debug.Stack()))
			}
			st := m.targetStack(6)
			ex.goPanic(msg, st)
			end = PathEnd{Status: "go-panic", Detail: msg + " @ " + st}
		default:
			msg := fmt.Sprint(r)
			if os.Getenv("GOSYM_DEBUG") != "" {
				fmt.Fprintln(os.Stderr, "engine error:", msg)
				fmt.Fprintln(os.Stderr, string(debug.Stack()))
			}
			end = PathEnd{Status: "engine-error", Detail: msg + " @ " + m.targetStack(6)}
		}
	}()
	m.i.overrides = map[string]value{}
	m.i.onceDone = map[string]bool{}
	ti := time.Now()
	m.resetGlobals(root)
	if progress && time.Since(ti) > 2*time.Millisecond {
		fmt.Fprintf(os.Stderr, "  [init] package initialisers took %v (%d SSA instructions)\n", time.Since(ti).Round(time.Millisecond), ex.steps)
	}
	ex.steps = 0
	call(m.i, nil, token.NoPos, fn, nil)
	return PathEnd{Status: "ok"}
}

// targetStack renders the interpreted call stack at the point of the last
// panic (innermost first).
func (m *Machine) targetStack(max int) string {
	var sb strings.Builder
	n := 0
	for fr := m.i.curFrame; fr != nil && n < max; fr = fr.caller {
		pos := ""
		if fr.cur != nil {
			pos = m.i.prog.Fset.Position(fr.cur.Pos()).String()
		}
		if n > 0 {
			sb.WriteString(" <- ")
		}
		fmt.Fprintf(&sb, "%s (%s)", fr.fn.String(), pos)
		n++
	}
	return sb.String()
}

func safeToString(v value) (s string) {
	defer func() {
		if recover() != nil {
			s = "<unprintable>"
		}
	}()
	if itf, ok := v.(iface); ok && itf.t != nil {
		return fmt.Sprintf("%s(%s)", itf.t, toString(itf.v))
	}
	return toString(v)
}

// RunHarness explores one harness with n workers.
func RunHarness(machines []*Machine, run *HarnessRun, root *ssa.Package, fn *ssa.Function) {
	var wg sync.WaitGroup
	for _, m := range machines {
		wg.Add(1)
		go func(m *Machine) {
			defer wg.Done()
			m.Explore(run, root, fn)
		}(m)
	}
	wg.Wait()
}
