package interp

// Solver channels: one long-lived incremental z3 per worker for the many small
// feasibility queries, and fresh one-shot processes (z3, z3-new, cvc5) for
// obligations that contain non-linear arithmetic or that the incremental
// process could not decide. Any "(error" in solver output makes the answer
// "unknown".

import (
	"bufio"
	"context"
	"fmt"
	"io"
	"os"
	"os/exec"
	"path/filepath"
	"regexp"
	"strconv"
	"strings"
	"sync"
	"sync/atomic"
	"time"
)

type SolverStats struct {
	Queries        int64
	IncQueries     int64
	OneShotQueries int64
	Sat            int64
	Unsat          int64
	Unknown        int64
	Nanos          int64
	ByBackend      sync.Map // name -> *int64 (nanoseconds)
	EvalSkips      int64    // branch sides decided by evaluating the model
}

func (s *SolverStats) addBackend(name string, d time.Duration) {
	p, _ := s.ByBackend.LoadOrStore(name, new(int64))
	atomic.AddInt64(p.(*int64), int64(d))
}

type Solver struct {
	cmd     *exec.Cmd
	in      io.WriteCloser
	out     *bufio.Reader
	bin     string
	args    []string
	stats   *SolverStats
	tmpDir  string
	incMs   int // timeout for incremental queries
	shotSec int // timeout for one-shot queries
	nfile   int
	// CrossCheck makes every obligation query go to z3-new as well; a
	// disagreement is reported as unknown.
	CrossCheck bool
	DumpDir    string
}

func NewSolver(stats *SolverStats, tmpDir string, incMs, shotSec int) *Solver {
	s := &Solver{bin: "z3", args: []string{"-in", fmt.Sprintf("-t:%d", incMs)}, stats: stats, tmpDir: tmpDir, incMs: incMs, shotSec: shotSec}
	s.start()
	return s
}

func (s *Solver) start() {
	cmd := exec.Command(s.bin, s.args...)
	in, _ := cmd.StdinPipe()
	out, _ := cmd.StdoutPipe()
	cmd.Stderr = cmd.Stdout
	if err := cmd.Start(); err != nil {
		panic(engineError{"cannot start solver: " + err.Error()})
	}
	s.cmd, s.in, s.out = cmd, in, bufio.NewReaderSize(out, 1<<20)
	io.WriteString(s.in, fmt.Sprintf("(set-option :timeout %d)\n(set-option :model.completion true)\n", s.incMs))
}

func (s *Solver) Close() {
	if s.cmd != nil {
		s.in.Close()
		s.cmd.Process.Kill()
		s.cmd.Wait()
		s.cmd = nil
	}
}

func (s *Solver) restart() {
	s.Close()
	s.start()
}

// ask sends q and returns everything printed up to the echo marker.
func (s *Solver) ask(q string) (string, error) {
	// watchdog: z3's own timeout does not cover preprocessing (bit-blasting
	// wide division/multiplication), so a stuck process is killed; the read
	// below then fails and the caller restarts the solver.
	proc := s.cmd.Process
	wd := time.AfterFunc(time.Duration(s.incMs)*time.Millisecond+3*time.Second, func() { proc.Kill() })
	defer wd.Stop()
	if _, err := io.WriteString(s.in, q+"(echo \"@@done\")\n"); err != nil {
		return "", err
	}
	var sb strings.Builder
	for {
		line, err := s.out.ReadString('\n')
		if err != nil {
			return sb.String(), err
		}
		t := strings.TrimSpace(line)
		if t == "@@done" || t == "\"@@done\"" {
			break
		}
		sb.WriteString(t)
		sb.WriteByte('\n')
	}
	return sb.String(), nil
}

var fileCounter int64

var valRe = regexp.MustCompile(`\(([A-Za-z_][A-Za-z0-9_]*)\s+(#x[0-9a-fA-F]+|#b[01]+|true|false|\(_ bv([0-9]+) [0-9]+\))\)`)

func parseModel(out string) map[string]uint64 {
	m := map[string]uint64{}
	for _, g := range valRe.FindAllStringSubmatch(out, -1) {
		name, v := g[1], g[2]
		var u uint64
		switch {
		case v == "true":
			u = 1
		case v == "false":
			u = 0
		case strings.HasPrefix(v, "#x"):
			u, _ = strconv.ParseUint(v[2:], 16, 64)
		case strings.HasPrefix(v, "#b"):
			u, _ = strconv.ParseUint(v[2:], 2, 64)
		default:
			u, _ = strconv.ParseUint(g[3], 10, 64)
		}
		m[name] = u
	}
	return m
}

func firstWord(out string) string {
	for _, l := range strings.Split(out, "\n") {
		l = strings.TrimSpace(l)
		if l == "sat" || l == "unsat" || l == "unknown" || l == "timeout" {
			return l
		}
	}
	return "unknown"
}

// Check decides the conjunction of terms. kind is "feas" (branch
// feasibility) or "oblig" (an assertion). It returns "sat", "unsat" or
// "unknown", and a model for sat.
func (s *Solver) Check(terms []*Term, kind string) (string, map[string]uint64) {
	t0 := time.Now()
	p := newPrinter()
	var asserts strings.Builder
	for _, t := range terms {
		if t.isTrue() {
			continue
		}
		if t.isFalse() {
			return "unsat", nil
		}
		r := p.ref(t)
		asserts.WriteString("(assert " + r + ")\n")
	}
	body := p.sb.String() + asserts.String()
	getv := ""
	if len(p.order) > 0 {
		getv = "(get-value (" + strings.Join(p.order, " ") + "))\n"
	}
	atomic.AddInt64(&s.stats.Queries, 1)
	if s.DumpDir != "" {
		s.nfile++
		os.WriteFile(filepath.Join(s.DumpDir, fmt.Sprintf("q%05d-%s.smt2", s.nfile, kind)), []byte(body+"(check-sat)\n"+getv), 0o644)
	}
	res, model := "unknown", map[string]uint64(nil)
	triedInc := false
	if !p.hasNL {
		triedInc = true
		res, model = s.incremental(body, getv)
	}
	if res == "unknown" {
		res, model = s.oneShotChain(body, getv, triedInc)
	}
	if kind == "oblig" && s.CrossCheck && res != "unknown" {
		r2, _ := s.oneShot("z3-new", []string{fmt.Sprintf("-T:%d", s.shotSec)}, body, getv)
		if r2 != "unknown" && r2 != res {
			res, model = "unknown", nil
		}
	}
	switch res {
	case "sat":
		atomic.AddInt64(&s.stats.Sat, 1)
	case "unsat":
		atomic.AddInt64(&s.stats.Unsat, 1)
	default:
		atomic.AddInt64(&s.stats.Unknown, 1)
	}
	atomic.AddInt64(&s.stats.Nanos, int64(time.Since(t0)))
	return res, model
}

func (s *Solver) incremental(body, getv string) (string, map[string]uint64) {
	t0 := time.Now()
	defer func() { s.stats.addBackend("z3-incremental", time.Since(t0)) }()
	atomic.AddInt64(&s.stats.IncQueries, 1)
	// (reset) rather than push/pop: after a reset z3 decides the first
	// check-sat with its default (non-incremental) tactic, which is orders of
	// magnitude faster on multiplication than the incremental core, and the
	// process start-up cost is still saved.
	out, err := s.ask(fmt.Sprintf("(reset)\n(set-option :timeout %d)\n(set-option :model.completion true)\n", s.incMs) + body + "(check-sat)\n")
	if err != nil {
		s.restart()
		return "unknown", nil
	}
	if strings.Contains(out, "(error") {
		return "unknown", nil
	}
	res := firstWord(out)
	var model map[string]uint64
	if res == "sat" {
		if getv != "" {
			mo, err := s.ask(getv)
			if err != nil || strings.Contains(mo, "(error") {
				s.restart()
				return "unknown", nil
			}
			model = parseModel(mo)
		} else {
			model = map[string]uint64{}
		}
	}
	if res == "timeout" {
		res = "unknown"
	}
	return res, model
}

func (s *Solver) oneShotChain(body, getv string, triedInc bool) (string, map[string]uint64) {
	chain := []struct {
		name string
		args []string
	}{
		{"z3", []string{fmt.Sprintf("-T:%d", s.shotSec)}},
		{"z3-new", []string{fmt.Sprintf("-T:%d", s.shotSec)}},
		{"cvc5", []string{"--lang=smt2", "--produce-models", fmt.Sprintf("--tlimit=%d", s.shotSec*1000)}},
	}
	for _, c := range chain {
		r, m := s.oneShot(c.name, c.args, body, getv)
		if r != "unknown" {
			return r, m
		}
	}
	return "unknown", nil
}

func (s *Solver) oneShot(bin string, args []string, body, getv string) (string, map[string]uint64) {
	t0 := time.Now()
	defer func() { s.stats.addBackend(bin+"-oneshot", time.Since(t0)) }()
	atomic.AddInt64(&s.stats.OneShotQueries, 1)
	fn := filepath.Join(s.tmpDir, fmt.Sprintf("os-%d-%d.smt2", os.Getpid(), atomic.AddInt64(&fileCounter, 1)))
	pre := ""
	if bin == "cvc5" {
		pre = "(set-logic ALL)\n"
	}
	// the get-value is only meaningful after sat; solvers print an error
	// after unsat, which we ignore by looking at the first word only.
	if err := os.WriteFile(fn, []byte(pre+"(set-option :produce-models true)\n"+body+"(check-sat)\n"+getv), 0o644); err != nil {
		return "unknown", nil
	}
	defer os.Remove(fn)
	ctx, cancel := context.WithTimeout(context.Background(), time.Duration(s.shotSec+5)*time.Second)
	defer cancel()
	cmd := exec.CommandContext(ctx, bin, append(args, fn)...)
	outb, _ := cmd.CombinedOutput()
	out := string(outb)
	res := firstWord(out)
	if res == "timeout" {
		res = "unknown"
	}
	// an error before the verdict (declaration/sort problems) is inconclusive;
	// errors after it come from get-value following unsat.
	for _, l := range strings.Split(out, "\n") {
		l = strings.TrimSpace(l)
		if l == "sat" || l == "unsat" || l == "unknown" || l == "timeout" {
			break
		}
		if strings.Contains(l, "(error") {
			return "unknown", nil
		}
	}
	if res == "sat" {
		return res, parseModel(out)
	}
	return res, nil
}
