package interp

// Intrinsics: the harness run-time (package zzvt), exact models of the few
// standard-library functions that cannot be interpreted (assembly, reflection,
// unsafe) and the uninterpreted hash functions.

import (
	"golang.org/x/crypto/blake2b"
	"golang.org/x/crypto/sha3"
	"fmt"
	"go/token"
	"go/types"
	"strings"

	"golang.org/x/tools/go/ssa"
)

const vtPkg = RepoPath + "/internal/zzvt."

func (e *Explorer) stub(name string) { e.stubs[name]++ }

func posOfCaller(fr *frame) string {
	// fr is the frame of the external itself; its caller holds the call site
	c := fr.caller
	if c == nil || c.block == nil {
		return ""
	}
	return c.fn.String()
}

func init() {
	fresh := func(k types.BasicKind) externalFn {
		return func(fr *frame, args []value) value {
			return fr.i.ex.Fresh(args[0].(string), k)
		}
	}
	externals[vtPkg+"Bool"] = fresh(types.Bool)
	externals[vtPkg+"U8"] = fresh(types.Uint8)
	externals[vtPkg+"U16"] = fresh(types.Uint16)
	externals[vtPkg+"U32"] = fresh(types.Uint32)
	externals[vtPkg+"U64"] = fresh(types.Uint64)
	externals[vtPkg+"I8"] = fresh(types.Int8)
	externals[vtPkg+"I16"] = fresh(types.Int16)
	externals[vtPkg+"I32"] = fresh(types.Int32)
	externals[vtPkg+"I64"] = fresh(types.Int64)
	externals[vtPkg+"Int"] = fresh(types.Int)
	externals[vtPkg+"Or"] = func(fr *frame, args []value) value { return boolSym(mkOr(toSym(args[0]).t, toSym(args[1]).t)) }
	externals[vtPkg+"And"] = func(fr *frame, args []value) value { return boolSym(mkAnd(toSym(args[0]).t, toSym(args[1]).t)) }
	externals[vtPkg+"Implies"] = func(fr *frame, args []value) value {
		return boolSym(mkOr(mkNot(toSym(args[0]).t), toSym(args[1]).t))
	}
	externals[vtPkg+"Symbolic"] = func(fr *frame, args []value) value { return true }
	externals[vtPkg+"Assume"] = func(fr *frame, args []value) value {
		fr.i.ex.Assume(args[0])
		return nil
	}
	externals[vtPkg+"Assert"] = func(fr *frame, args []value) value {
		fr.i.ex.Assert(args[0], args[1].(string), "", nil, posOfCaller(fr))
		return nil
	}
	externals[vtPkg+"AssertKF"] = func(fr *frame, args []value) value {
		fr.i.ex.Assert(args[0], args[1].(string), args[2].(string), args[3], posOfCaller(fr))
		return nil
	}
	externals[vtPkg+"Cover"] = func(fr *frame, args []value) value {
		fr.i.ex.Cover(args[0].(string))
		return nil
	}
	externals[vtPkg+"Note"] = func(fr *frame, args []value) value {
		fr.i.ex.assumes[args[0].(string)] = true
		return nil
	}
	externals[vtPkg+"HashAxioms"] = func(fr *frame, args []value) value {
		fr.i.ex.noHashAxioms = !args[0].(bool)
		return nil
	}
	externals[vtPkg+"ConcreteHashes"] = func(fr *frame, args []value) value {
		fr.i.ex.concreteHashes = true
		return nil
	}
	externals[vtPkg+"AllowPanic"] = func(fr *frame, args []value) value {
		fr.i.ex.allowPanic = true
		return nil
	}
	externals[vtPkg+"AllocBudget"] = func(fr *frame, args []value) value {
		fr.i.ex.allocTotal = 0
		fr.i.ex.allocBudget = asInt64(fr.i.ex.Concretize(args[0]))
		return nil
	}
	externals[vtPkg+"Allocated"] = func(fr *frame, args []value) value {
		return int(fr.i.ex.allocTotal)
	}
	externals[vtPkg+"Bytes"] = func(fr *frame, args []value) value {
		n := asInt64(fr.i.ex.Concretize(args[1]))
		out := make([]value, n)
		for i := range out {
			out[i] = fr.i.ex.Fresh(args[0].(string), types.Uint8)
		}
		return out
	}
	externals[vtPkg+"FillBytes"] = func(fr *frame, args []value) value {
		p := args[1].([]value)
		for i := range p {
			p[i] = fr.i.ex.Fresh(args[0].(string), types.Uint8)
		}
		return nil
	}
	externals[vtPkg+"Range"] = func(fr *frame, args []value) value {
		ex := fr.i.ex
		lo, hi := asInt64(ex.Concretize(args[1])), asInt64(ex.Concretize(args[2]))
		s := ex.Fresh(args[0].(string), types.Int)
		ex.Assume(boolSym(mkAnd(mkCmp("bvsle", mkConst(uint64(lo), 64), s.t), mkCmp("bvsle", s.t, mkConst(uint64(hi), 64)))))
		return ex.Concretize(s)
	}
	externals[vtPkg+"Concrete64"] = func(fr *frame, args []value) value { return fr.i.ex.Concretize(args[0]) }
	externals[vtPkg+"U8c"] = func(fr *frame, args []value) value { return fr.i.ex.Concretize(args[0]) }
	externals[vtPkg+"ConcreteInt"] = func(fr *frame, args []value) value { return fr.i.ex.Concretize(args[0]) }
	externals[vtPkg+"Ite64"] = func(fr *frame, args []value) value {
		if b, ok := args[0].(bool); ok {
			if b {
				return args[1]
			}
			return args[2]
		}
		return symIteValue(args[0].(sym).t, args[1], args[2])
	}
	externals[vtPkg+"MulHi"] = func(fr *frame, args []value) value {
		x, y := toSym(args[0]), toSym(args[1])
		ext := func(s sym, signed bool) *Term {
			if signed {
				return mkSext(s.t, 64)
			}
			return mkZext(s.t, 64)
		}
		p := mkBin("bvmul", ext(x, args[2].(bool)), ext(y, args[3].(bool)))
		if x.t.isConst() && y.t.isConst() {
			ev := newEvaluator(map[string]uint64{})
			w := ev.ev(p)
			return w.hi
		}
		return sym{mkExtract(p, 127, 64), types.Uint64}
	}
	externals[vtPkg+"Override"] = func(fr *frame, args []value) value {
		name := args[0].(string)
		itf := args[1].(iface)
		fr.i.overrides[name] = itf.v
		return nil
	}
	externals[vtPkg+"Hash32"] = func(fr *frame, args []value) value {
		return hashUF(fr, "Hz_"+sanitize(args[0].(string)), args[1].([]value))
	}

	// ---- math/bits -------------------------------------------------------
	lenN := func(bits int) externalFn {
		return func(fr *frame, args []value) value {
			x := toSym(args[0])
			if x.t.isConst() {
				n := 0
				for v := x.t.k; v != 0; v >>= 1 {
					n++
				}
				return n
			}
			res := mkConst(0, 64)
			for i := 0; i < bits; i++ {
				res = mkIte(mkEq(mkExtract(x.t, i, i), mkConst(1, 1)), mkConst(uint64(i+1), 64), res)
			}
			return sym{res, types.Int}
		}
	}
	lz := func(bits int) externalFn {
		l := lenN(bits)
		return func(fr *frame, args []value) value {
			return binop(token.SUB, nil, bits, l(fr, args))
		}
	}
	tz := func(bits int) externalFn {
		return func(fr *frame, args []value) value {
			x := toSym(args[0])
			res := mkConst(uint64(bits), 64)
			for i := bits - 1; i >= 0; i-- {
				res = mkIte(mkEq(mkExtract(x.t, i, i), mkConst(1, 1)), mkConst(uint64(i), 64), res)
			}
			return simplify(sym{res, types.Int})
		}
	}
	pop := func(bits int) externalFn {
		return func(fr *frame, args []value) value {
			x := toSym(args[0])
			res := mkConst(0, 64)
			for i := 0; i < bits; i++ {
				res = mkBin("bvadd", res, mkZext(mkExtract(x.t, i, i), 63))
			}
			return simplify(sym{res, types.Int})
		}
	}
	externals["math/bits.OnesCount"] = pop(64)
	externals["math/bits.OnesCount64"] = pop(64)
	externals["math/bits.OnesCount32"] = pop(32)
	externals["math/bits.OnesCount16"] = pop(16)
	externals["math/bits.OnesCount8"] = pop(8)
	externals["math/bits.Len"] = lenN(64)
	externals["math/bits.Len64"] = lenN(64)
	externals["math/bits.Len32"] = lenN(32)
	externals["math/bits.Len16"] = lenN(16)
	externals["math/bits.Len8"] = lenN(8)
	externals["math/bits.LeadingZeros"] = lz(64)
	externals["math/bits.LeadingZeros64"] = lz(64)
	externals["math/bits.LeadingZeros32"] = lz(32)
	externals["math/bits.LeadingZeros16"] = lz(16)
	externals["math/bits.LeadingZeros8"] = lz(8)
	externals["math/bits.TrailingZeros"] = tz(64)
	externals["math/bits.TrailingZeros64"] = tz(64)
	externals["math/bits.TrailingZeros32"] = tz(32)
	externals["math/bits.TrailingZeros16"] = tz(16)
	externals["math/bits.TrailingZeros8"] = tz(8)
	externals["math/bits.Mul64"] = func(fr *frame, args []value) value {
		x, y := toSym(args[0]), toSym(args[1])
		p := mkBin("bvmul", mkZext(x.t, 64), mkZext(y.t, 64))
		if x.t.isConst() && y.t.isConst() {
			w := newEvaluator(map[string]uint64{}).ev(p)
			return tuple{w.hi, w.lo}
		}
		return tuple{simplify(sym{mkExtract(p, 127, 64), types.Uint64}), simplify(sym{mkExtract(p, 63, 0), types.Uint64})}
	}

	// ---- bytes / bytealg ---------------------------------------------------
	bytesEqual := func(fr *frame, args []value) value {
		return bytesEq(toByteValues(fr, args[0]), toByteValues(fr, args[1]))
	}
	externals["bytes.Equal"] = bytesEqual
	externals["internal/bytealg.Equal"] = bytesEqual
	externals["bytes.Compare"] = func(fr *frame, args []value) value {
		return bytesCompare(args[0].([]value), args[1].([]value))
	}
	externals["internal/bytealg.Compare"] = externals["bytes.Compare"]
	externals["internal/bytealg.CompareString"] = func(fr *frame, args []value) value {
		return strings.Compare(args[0].(string), args[1].(string))
	}
	externals["strings.Compare"] = externals["internal/bytealg.CompareString"]
	externals["bytes.IndexByte"] = func(fr *frame, args []value) value {
		s := args[0].([]value)
		for i, b := range s {
			if fr.i.ex.BranchValue(binop(token.EQL, nil, b, args[1])) {
				return i
			}
		}
		return -1
	}
	externals["internal/bytealg.IndexByte"] = externals["bytes.IndexByte"]
	externals["internal/bytealg.IndexByteString"] = func(fr *frame, args []value) value {
		return strings.IndexByte(args[0].(string), fr.i.ex.Concretize(args[1]).(byte))
	}
	externals["internal/bytealg.MakeNoZero"] = func(fr *frame, args []value) value {
		n := asInt64(fr.i.ex.Concretize(args[0]))
		if n < 0 || n > maxAlloc {
			panic(runtimePanic("makeslice: len out of range"))
		}
		fr.i.ex.noteAlloc(n, nil)
		out := make([]value, n)
		for i := range out {
			out[i] = uint8(0)
		}
		return out
	}
	externals["internal/bytealg.CountString"] = func(fr *frame, args []value) value {
		return strings.Count(args[0].(string), string([]byte{args[1].(byte)}))
	}
	externals["internal/bytealg.IndexString"] = func(fr *frame, args []value) value {
		return strings.Index(args[0].(string), args[1].(string))
	}
	externals["internal/stringslite.Index"] = externals["internal/bytealg.IndexString"]
	externals["internal/stringslite.HasPrefix"] = func(fr *frame, args []value) value {
		return strings.HasPrefix(args[0].(string), args[1].(string))
	}
	externals["strings.HasPrefix"] = externals["internal/stringslite.HasPrefix"]
	externals["strings.HasSuffix"] = func(fr *frame, args []value) value {
		return strings.HasSuffix(args[0].(string), args[1].(string))
	}
	externals["strings.Contains"] = func(fr *frame, args []value) value {
		return strings.Contains(args[0].(string), args[1].(string))
	}
	externals["strings.Split"] = func(fr *frame, args []value) value {
		var out []value
		for _, p := range strings.Split(args[0].(string), args[1].(string)) {
			out = append(out, p)
		}
		return out
	}

	// ---- sort ---------------------------------------------------------------
	sortSlice := func(fr *frame, args []value) value {
		xs := args[0].(iface).v.([]value)
		less := args[1]
		ex := fr.i.ex
		ex.stub("sort.Slice as insertion sort calling the real less (== runtime behaviour for n<=12)")
		for i := 1; i < len(xs); i++ {
			for j := i; j > 0; j-- {
				r := call(fr.i, fr, token.NoPos, less, []value{j, j - 1})
				if !ex.BranchValue(r) {
					break
				}
				xs[j], xs[j-1] = xs[j-1], xs[j]
			}
		}
		return nil
	}
	externals["sort.Slice"] = sortSlice
	externals["sort.SliceStable"] = sortSlice
	externals["sort.SliceIsSorted"] = func(fr *frame, args []value) value {
		xs := args[0].(iface).v.([]value)
		for i := len(xs) - 1; i > 0; i-- {
			r := call(fr.i, fr, token.NoPos, args[1], []value{i, i - 1})
			if fr.i.ex.BranchValue(r) {
				return false
			}
		}
		return true
	}
	externals["sort.Strings"] = func(fr *frame, args []value) value {
		xs := args[0].([]value)
		for i := 1; i < len(xs); i++ {
			for j := i; j > 0 && xs[j].(string) < xs[j-1].(string); j-- {
				xs[j], xs[j-1] = xs[j-1], xs[j]
			}
		}
		return nil
	}

	// ---- fmt / errors ---------------------------------------------------------
	externals["fmt.Sprintf"] = func(fr *frame, args []value) value {
		fr.i.ex.stub("fmt.Sprintf (opaque string)")
		if f, ok := args[0].(string); ok {
			return "<fmt.Sprintf " + f + ">"
		}
		return "<fmt.Sprintf>"
	}
	externals["fmt.Sprint"] = func(fr *frame, args []value) value { return "<fmt.Sprint>" }
	externals["fmt.Sprintln"] = func(fr *frame, args []value) value { return "<fmt.Sprintln>" }
	externals["fmt.Errorf"] = func(fr *frame, args []value) value {
		fr.i.ex.stub("fmt.Errorf (opaque non-nil error)")
		msg := "<fmt.Errorf>"
		if f, ok := args[0].(string); ok {
			msg = "<fmt.Errorf " + f + ">"
		}
		return opaqueError(fr.i, msg)
	}
	externals["errors.Is"] = func(fr *frame, args []value) value {
		a, b := args[0].(iface), args[1].(iface)
		if a.t == nil || b.t == nil {
			return a.t == nil && b.t == nil
		}
		return types.Identical(a.t, b.t) && eqPlain(a.v, b.v)
	}

	// ---- sync -------------------------------------------------------------------
	externals["(*sync.Once).Do"] = func(fr *frame, args []value) value {
		o := args[0].(*value)
		st := (*o).(structure)
		// field "done" is an atomic.Uint32 / or layout-dependent: keep our own flag in field 0 region
		key := fmt.Sprintf("%p", o)
		if fr.i.onceDone == nil {
			fr.i.onceDone = map[string]bool{}
		}
		_ = st
		if !fr.i.onceDone[key] {
			fr.i.onceDone[key] = true
			call(fr.i, fr, token.NoPos, args[1], nil)
		}
		return nil
	}
	externals["(*sync.Pool).Get"] = func(fr *frame, args []value) value {
		p := args[0].(*value)
		st := (*p).(structure)
		newFn := st[len(st)-1] // New is the last field of sync.Pool
		switch f := newFn.(type) {
		case *ssa.Function:
			if f == nil {
				return iface{}
			}
		case nil:
			return iface{}
		}
		return call(fr.i, fr, token.NoPos, newFn, nil)
	}
	externals["(*sync.Pool).Put"] = func(fr *frame, args []value) value { return nil }

	// ---- hashes -----------------------------------------------------------------
	hp := RepoPath + "/internal/utilities/hash."
	externals[hp+"Blake2bHash"] = func(fr *frame, args []value) value {
		fr.i.ex.stub("hash.Blake2bHash as uninterpreted function Hb")
		return hashUF(fr, "Hb", args[0].([]value))
	}
	externals[hp+"KeccakHash"] = func(fr *frame, args []value) value {
		fr.i.ex.stub("hash.KeccakHash as uninterpreted function Hk")
		return hashUF(fr, "Hk", args[0].([]value))
	}
	externals[hp+"Blake2bHashPartial"] = func(fr *frame, args []value) value {
		fr.i.ex.stub("hash.Blake2bHashPartial as prefix of uninterpreted function Hb")
		h := hashUF(fr, "Hb", args[0].([]value)).(array)
		x := asInt64(fr.i.ex.Concretize(args[1]))
		if x < 0 || x > 32 {
			panic(runtimePanic(fmt.Sprintf("slice bounds out of range [:%d] with capacity 32", x)))
		}
		out := make([]value, x)
		copy(out, h[:x])
		return out
	}

	externals["encoding/binary.Read"] = binaryRead

	// maps.clone is linked to the runtime: shallow copy of the map
	externals["maps.clone"] = func(fr *frame, args []value) value {
		itf := args[0].(iface)
		m, _ := itf.v.(*omap)
		if m == nil {
			return itf
		}
		n := newOmap(m.keyType)
		for i, k := range m.keys {
			if !m.dead[i] {
				n.insert(fr.i.ex, k, m.vals[i])
			}
		}
		return iface{t: itf.t, v: n}
	}
}

func toByteValues(fr *frame, v value) []value {
	switch v := v.(type) {
	case []value:
		return v
	case string:
		out := make([]value, len(v))
		for i := 0; i < len(v); i++ {
			out[i] = v[i]
		}
		return out
	}
	panic(fmt.Sprintf("toByteValues: %T", v))
}

func bytesEq(a, b []value) value {
	if len(a) != len(b) {
		return false
	}
	r := termTrue
	for i := range a {
		r = mkAnd(r, mkEq(toSym(a[i]).t, toSym(b[i]).t))
		if r.isFalse() {
			return false
		}
	}
	return boolSym(r)
}

// bytesCompare returns -1/0/+1 as a (possibly symbolic) int.
func bytesCompare(a, b []value) value {
	n := len(a)
	if len(b) < n {
		n = len(b)
	}
	var tail uint64
	switch {
	case len(a) < len(b):
		tail = ^uint64(0)
	case len(a) > len(b):
		tail = 1
	}
	res := mkConst(tail, 64)
	for i := n - 1; i >= 0; i-- {
		x, y := toSym(a[i]).t, toSym(b[i]).t
		res = mkIte(mkCmp("bvult", x, y), mkConst(^uint64(0), 64), mkIte(mkCmp("bvult", y, x), mkConst(1, 64), res))
	}
	return simplify(sym{res, types.Int})
}

func opaqueError(i *interpreter, msg string) value {
	// a *errors.errorString, which is what errors.New returns
	pkg := i.prog.ImportedPackage("errors")
	if pkg == nil {
		panic(engineError{"package errors not loaded"})
	}
	t := pkg.Type("errorString").Object().Type()
	var cell value = structure{msg}
	return iface{t: types.NewPointer(t), v: &cell}
}

// hashUF models a 256-bit hash as an uninterpreted function of the input
// bytes; one function symbol per input length.
func hashUF(fr *frame, name string, in []value) value {
	n := len(in)
	var app *Term
	fn := fmt.Sprintf("%s_%d", name, n)
	{
		var arg *Term
		allConst := true
		if n == 0 {
			// the empty input: a one-bit dummy argument, so that the empty digest takes part in
			// the collision-freedom instances like every other application
			arg = mkConst(0, 1)
		}
		for _, b := range in {
			t := toSym(b).t
			if !t.isConst() {
				allConst = false
			}
			if arg == nil {
				arg = t
			} else {
				arg = &Term{op: "concat", w: arg.w + 8, args: []*Term{arg, t}, size: arg.size + t.size + 1}
			}
		}
		if allConst && fr.i.ex.concreteHashes && (name == "Hb" || name == "Hk") {
			// the harness asked for real digests of fully concrete inputs
			raw := make([]byte, n)
			for i, b := range in {
				raw[i] = byte(toSym(b).t.k)
			}
			var d [32]byte
			if name == "Hb" {
				d = blake2b.Sum256(raw)
			} else {
				k := sha3.NewLegacyKeccak256()
				k.Write(raw)
				copy(d[:], k.Sum(nil))
			}
			var dt *Term
			for i := 0; i < 4; i++ {
				var w uint64
				for j := 0; j < 8; j++ {
					w = w<<8 | uint64(d[8*i+j])
				}
				c := mkConst(w, 64)
				if dt == nil {
					dt = c
				} else {
					dt = &Term{op: "concat", w: dt.w + 64, args: []*Term{dt, c}, size: dt.size + 2}
				}
			}
			fr.i.ex.ufApps[name] = append(fr.i.ex.ufApps[name], ufApp{arg: arg, app: dt, bytes: bytesOf(in)})
			fr.i.ex.stubs["real "+map[string]string{"Hb": "blake2b-256", "Hk": "keccak-256"}[name]+" digests for fully concrete inputs (harness opt-in)"]++
			out := make(array, 32)
			for i := range out {
				out[i] = d[i]
			}
			return out
		}
		app = mkUF(fn, 256, arg)
		// the same input hashed before on this path: reuse the application
		reused := false
		for _, prev := range fr.i.ex.ufApps[name] {
			if prev.arg.w == arg.w && termEqual(prev.arg, arg) {
				app, reused = prev.app, true
				break
			}
		}
		if reused {
			out := make(array, 32)
			for i := 0; i < 32; i++ {
				hi := 255 - 8*i
				out[i] = simplify(sym{mkExtract(app, hi, hi-7), types.Uint8})
			}
			return out
		}
		// collision freedom on the points queried on this path: H(a) = H(b) => a = b
		// (an assumption about the environment, recorded in the evidence)
		ex := fr.i.ex
		// (stated on the first 27 bytes, the part the state-key construction keeps:
		// the JAM state trie relies on exactly this)
		top := func(t *Term) *Term { return mkExtract(t, 255, 40) }
		prevApps := ex.ufApps[name]
		if strings.HasPrefix(name, "Hz_") || len(prevApps) > 200 || ex.noHashAxioms {
			// hashes passed in by a harness (zzvt.Hash32) are only ever compared with the
			// oracle's application of the same symbol; and the instance set is capped
			prevApps = nil
		}
		for _, prev := range prevApps {
			switch {
			case prev.arg.w != arg.w:
				// inputs of different lengths are different inputs
				ex.addPC(mkNot(mkEq(top(app), top(prev.app))))
			case sameTerm(prev.arg, arg):
			default:
				// input equality byte by byte: bytes that are syntactically equal drop out,
				// two different constants settle it
				same := termTrue
				cur := bytesOf(in)
				for i := range cur {
					if i >= len(prev.bytes) {
						break
					}
					same = mkAnd(same, mkEq(cur[i], prev.bytes[i]))
					if same.isFalse() {
						break
					}
				}
				if len(prev.bytes) != len(cur) {
					same = mkEq(arg, prev.arg)
				}
				if same.isFalse() {
					ex.addPC(mkNot(mkEq(top(app), top(prev.app))))
				} else {
					ex.addPC(mkOr(mkNot(mkEq(top(app), top(prev.app))), same))
				}
			}
		}
		ex.ufApps[name] = append(ex.ufApps[name], ufApp{arg: arg, app: app, bytes: bytesOf(in)})
		if !strings.HasPrefix(name, "Hz_") && !ex.noHashAxioms {
			ex.stubs["assumption: "+name+" is collision-free (first 27 bytes) on the inputs hashed on a path (<= 200 earlier applications)"]++
		}
	}
	out := make(array, 32)
	for i := 0; i < 32; i++ {
		hi := 255 - 8*i
		out[i] = sym{mkExtract(app, hi, hi-7), types.Uint8}
	}
	return out
}

// binaryRead models encoding/binary.Read for little-endian integers, bools
// and (nested) arrays/structs of them, decided from the static type of data.
func binaryRead(fr *frame, args []value) value {
	rd := args[0].(iface)
	data := args[2].(iface)
	pt, ok := data.t.Underlying().(*types.Pointer)
	if !ok {
		if sl, ok := data.t.Underlying().(*types.Slice); ok {
			// []byte / []uintN target: fill the slice
			dst := data.v.([]value)
			esz := sizeOfBinary(sl.Elem())
			buf, err := readFull(fr, rd, len(dst)*esz)
			if err != nil {
				return err
			}
			pos := 0
			for i := range dst {
				dst[i] = decodeLE(sl.Elem(), buf, &pos)
			}
			return iface{}
		}
		panic(engineError{"binary.Read intrinsic: unsupported data " + data.t.String()})
	}
	elemT := pt.Elem()
	n := sizeOfBinary(elemT)
	buf, err := readFull(fr, rd, n)
	if err != nil {
		return err
	}
	pos := 0
	v := decodeLE(elemT, buf, &pos)
	store(elemT, data.v.(*value), v)
	return iface{}
}

func sizeOfBinary(t types.Type) int {
	switch u := t.Underlying().(type) {
	case *types.Basic:
		k, ok := basicKindOf(t)
		if !ok {
			panic(engineError{"binary intrinsic: unsupported " + t.String()})
		}
		if k == types.Bool {
			return 1
		}
		b, _ := kindBits(k)
		return b / 8
	case *types.Array:
		return int(u.Len()) * sizeOfBinary(u.Elem())
	case *types.Struct:
		n := 0
		for i := 0; i < u.NumFields(); i++ {
			n += sizeOfBinary(u.Field(i).Type())
		}
		return n
	}
	panic(engineError{"binary intrinsic: unsupported " + t.String()})
}

// readFull has io.ReadFull semantics over the reader's real Read method.
func readFull(fr *frame, rd iface, n int) ([]value, value) {
	buf := make([]value, n)
	for i := range buf {
		buf[i] = uint8(0)
	}
	if n == 0 {
		return buf, nil
	}
	readM := fr.i.prog.LookupMethod(rd.t, nil, "Read")
	if readM == nil {
		panic(engineError{"binary.Read intrinsic: no Read method on " + rd.t.String()})
	}
	got := 0
	for got < n {
		res := call(fr.i, fr, token.NoPos, readM, []value{rd.v, buf[got:]}).(tuple)
		k := int(asInt64(fr.i.ex.Concretize(res[0])))
		got += k
		if e := res[1].(iface); e.t != nil {
			if got >= n {
				break
			}
			if got == 0 {
				return nil, res[1]
			}
			if isGlobalErr(fr.i, e, "io", "EOF") {
				return nil, globalErr(fr.i, "io", "ErrUnexpectedEOF")
			}
			return nil, res[1]
		}
		if k == 0 {
			return nil, globalErr(fr.i, "io", "ErrNoProgress")
		}
	}
	return buf, nil
}

func globalErr(i *interpreter, pkg, name string) value {
	p := i.prog.ImportedPackage(pkg)
	if p == nil {
		panic(engineError{"package " + pkg + " not loaded"})
	}
	g := p.Var(name)
	cell, ok := i.globals[g]
	if !ok {
		panic(engineError{"global " + pkg + "." + name + " not initialised"})
	}
	return *cell
}

func isGlobalErr(i *interpreter, e iface, pkg, name string) bool {
	g := globalErr(i, pkg, name).(iface)
	return g.t != nil && e.t != nil && types.Identical(g.t, e.t) && eqPlain(g.v, e.v)
}

func decodeLE(t types.Type, buf []value, pos *int) value {
	switch u := t.Underlying().(type) {
	case *types.Basic:
		k, _ := basicKindOf(t)
		if k == types.Bool {
			v := buf[*pos]
			*pos++
			return binop(token.NEQ, nil, v, uint8(0))
		}
		b, _ := kindBits(k)
		nb := b / 8
		var term *Term
		for i := nb - 1; i >= 0; i-- {
			bt := toSym(buf[*pos+i]).t
			if term == nil {
				term = bt
			} else {
				term = mkConcat(term, bt)
			}
		}
		*pos += nb
		return simplify(sym{term, k})
	case *types.Array:
		a := make(array, u.Len())
		for i := range a {
			a[i] = decodeLE(u.Elem(), buf, pos)
		}
		return a
	case *types.Struct:
		s := make(structure, u.NumFields())
		for i := range s {
			s[i] = decodeLE(u.Field(i).Type(), buf, pos)
		}
		return s
	}
	panic(engineError{"binary intrinsic: unsupported " + t.String()})
}

func bytesOf(in []value) []*Term {
	out := make([]*Term, len(in))
	for i, b := range in {
		out[i] = toSym(b).t
	}
	return out
}
