package interp

// Path exploration by re-execution with decision prefixes.

import (
	"os"
	"fmt"
	"time"
	"go/types"
	"sort"
	"strings"
	"sync"
	"sync/atomic"
)

// Decision is one recorded choice on a path: a branch side ('b') or, for a
// concretised integer, "equal to V" (B=true) / "different from V" (B=false).
type Decision struct {
	Kind byte
	B    bool
	V    uint64
}

func (d Decision) String() string {
	if d.Kind == 'b' {
		if d.B {
			return "T"
		}
		return "F"
	}
	if d.B {
		return fmt.Sprintf("=%d", d.V)
	}
	return fmt.Sprintf("!%d", d.V)
}

func pathString(ds []Decision) string {
	var sb strings.Builder
	for i, d := range ds {
		if i > 0 && (d.Kind != 'b' || ds[i-1].Kind != 'b') {
			sb.WriteByte(' ')
		}
		sb.WriteString(d.String())
	}
	return sb.String()
}

type workItem struct {
	prefix []Decision
	model  map[string]uint64
}

// Obligation is the outcome of one assertion on one path.
type Obligation struct {
	Harness string            `json:"harness"`
	Label   string            `json:"label"`
	Status  string            `json:"status"` // holds | violated | unknown
	KF      string            `json:"kf,omitempty"`
	InKF    bool              `json:"in_kf_region,omitempty"`
	Path    string            `json:"path"`
	Model   map[string]uint64 `json:"model,omitempty"`
	Pos     string            `json:"pos,omitempty"`
	Detail  string            `json:"detail,omitempty"`
}

// PathEnd records how a path terminated.
type PathEnd struct {
	Status string // ok | go-panic | infeasible | budget | engine-error | assume-false
	Detail string
	Path   string
}

// HarnessRun is shared by the workers exploring one harness.
type HarnessRun struct {
	Name     string
	MaxPaths int
	MaxSteps int64 // SSA instructions per path
	MaxDecisions int
	ConcretizeCap int
	AllowPanic bool // harness declares that Go panics are expected outcomes

	mu       sync.Mutex
	cond     *sync.Cond
	work     []workItem
	active   int
	started  int
	stopped  bool

	Obligations []Obligation
	Ends        map[string]int
	EndSamples  []PathEnd
	Covers      map[string]int
	Funcs       map[string]bool
	Stubs       map[string]int
	Assumes     map[string]bool
	Steps       int64
	Paths       int
	Forks       int64
	BoundExceeded string
	Deadline      time.Time // exploration stops (as a reported bound) after this instant
	MaxViolations int       // stop exploring after this many violated obligations (0 = never)
	violated      int
	WitnessCap    int
	Witnesses     []Witness
}

// Witness is the input assignment of one path that finished without any
// violated obligation; it is replayed natively to validate the translation.
type Witness struct {
	Model map[string]uint64
	Path  string
}

func NewHarnessRun(name string) *HarnessRun {
	r := &HarnessRun{Name: name, MaxPaths: 20000, MaxSteps: 20_000_000, MaxDecisions: 4000, ConcretizeCap: 64,
		Ends: map[string]int{}, Covers: map[string]int{}, Funcs: map[string]bool{}, Stubs: map[string]int{}, Assumes: map[string]bool{}}
	r.cond = sync.NewCond(&r.mu)
	r.work = []workItem{{}}
	return r
}

// next blocks until a work item is available or exploration is finished.
func (r *HarnessRun) next() (workItem, bool) {
	r.mu.Lock()
	defer r.mu.Unlock()
	for {
		if r.stopped {
			return workItem{}, false
		}
		if len(r.work) > 0 {
			if !r.Deadline.IsZero() && time.Now().After(r.Deadline) {
				r.BoundExceeded = fmt.Sprintf("time limit reached with %d prefixes unexplored (%d paths done)", len(r.work), r.started)
				r.stopped = true
				r.cond.Broadcast()
				return workItem{}, false
			}
			if r.MaxViolations > 0 && r.violated >= r.MaxViolations {
				r.BoundExceeded = fmt.Sprintf("stopped after %d violated obligations with %d prefixes unexplored", r.violated, len(r.work))
				r.stopped = true
				r.cond.Broadcast()
				return workItem{}, false
			}
			if r.started >= r.MaxPaths {
				r.BoundExceeded = fmt.Sprintf("path limit %d reached with %d prefixes unexplored", r.MaxPaths, len(r.work))
				r.stopped = true
				r.cond.Broadcast()
				return workItem{}, false
			}
			w := r.work[len(r.work)-1]
			r.work = r.work[:len(r.work)-1]
			r.active++
			r.started++
			return w, true
		}
		if r.active == 0 {
			r.stopped = true
			r.cond.Broadcast()
			return workItem{}, false
		}
		r.cond.Wait()
	}
}

func (r *HarnessRun) done() {
	r.mu.Lock()
	r.active--
	r.cond.Broadcast()
	r.mu.Unlock()
}

func (r *HarnessRun) push(w workItem) {
	r.mu.Lock()
	r.work = append(r.work, w)
	r.cond.Signal()
	r.mu.Unlock()
}

// Explorer is the per-worker, per-path state.
type Explorer struct {
	run    *HarnessRun
	solver *Solver
	stats  *SolverStats

	prefix    []Decision
	pos       int
	decisions []Decision
	pc        []*Term
	model     map[string]uint64 // satisfies pc, or nil if unknown
	ev        *evaluator
	nvars     int
	varKinds  map[string]types.BasicKind
	steps     int64

	obligations []Obligation
	covers      map[string]int
	funcs       map[string]bool
	stubs       map[string]int
	assumes     map[string]bool
	forks       int64
	allowPanic  bool
	ufApps      map[string][]ufApp // per uninterpreted function: applications made on this path
	allocTotal  int64
	where       func() string // debugging: interpreted call stack
	facts       map[uint64][]fact
	concreteHashes bool
	noHashAxioms bool
	lastRecovered string
	cells       int64
	allocBudget int64
}

type ufApp struct {
	arg, app *Term
	bytes    []*Term // the input bytes (nil for digests computed concretely)
}

type pathAbort struct{ status, why string }
type engineError struct{ msg string }

var debugBranches = os.Getenv("GOSYM_DEBUG") == "branch"

func (e *Explorer) reset(w workItem) {
	e.prefix = w.prefix
	e.pos = 0
	e.decisions = nil
	e.pc = nil
	e.facts = nil
	e.model = nil
	if w.model != nil {
		e.model = make(map[string]uint64, len(w.model))
		for k, v := range w.model {
			e.model[k] = v
		}
	} else if len(w.prefix) == 0 {
		e.model = map[string]uint64{}
	}
	e.ev = nil
	e.nvars = 0
	e.varKinds = map[string]types.BasicKind{}
	e.steps = 0
	e.obligations = nil
	e.covers = map[string]int{}
	e.funcs = map[string]bool{}
	e.stubs = map[string]int{}
	e.assumes = map[string]bool{}
	e.forks = 0
	e.allowPanic = e.run.AllowPanic
	e.ufApps = map[string][]ufApp{}
	e.allocTotal, e.allocBudget, e.cells = 0, 0, 0
	e.lastRecovered = ""
	e.concreteHashes = false
	e.noHashAxioms = false
}

func sanitize(name string) string {
	var sb strings.Builder
	for _, c := range name {
		if c >= 'a' && c <= 'z' || c >= 'A' && c <= 'Z' || c >= '0' && c <= '9' || c == '_' {
			sb.WriteRune(c)
		} else {
			sb.WriteByte('_')
		}
	}
	if sb.Len() == 0 {
		return "v"
	}
	return sb.String()
}

// Fresh creates a new symbolic input of the given kind. Names are
// name#<ordinal> so that the native replay, which counts calls the same way,
// can look its value up.
func (e *Explorer) Fresh(name string, k types.BasicKind) sym {
	n := fmt.Sprintf("%s__%d", sanitize(name), e.nvars)
	e.nvars++
	bits, _ := kindBits(k)
	e.varKinds[n] = k
	return sym{mkVar(n, bits), k}
}

func (e *Explorer) evaluator() *evaluator {
	if e.model == nil {
		return nil
	}
	if e.ev == nil || e.ev.model == nil {
		e.ev = newEvaluator(e.model)
	}
	return e.ev
}

func (e *Explorer) setModel(m map[string]uint64) {
	e.model = m
	e.ev = nil
}

// ensureModel obtains a model of the current path condition if none is known.
func (e *Explorer) ensureModel() {
	if e.model != nil {
		return
	}
	r, m := e.solver.Check(e.pc, "feas")
	switch r {
	case "sat":
		e.setModel(m)
	case "unsat":
		panic(pathAbort{"infeasible", "path condition unsatisfiable"})
	default:
		panic(pathAbort{"unknown", "path condition not decided"})
	}
}

func (e *Explorer) record(d Decision) {
	e.decisions = append(e.decisions, d)
	if len(e.decisions) > e.run.MaxDecisions {
		panic(pathAbort{"budget", fmt.Sprintf("more than %d decisions on one path (unwinding bound)", e.run.MaxDecisions)})
	}
}

func (e *Explorer) addPC(c *Term) {
	e.pc = append(e.pc, c)
	atom, val := c, true
	if c.op == "not" {
		atom, val = c.args[0], false
	}
	if e.facts == nil {
		e.facts = map[uint64][]fact{}
	}
	h := atom.hash()
	e.facts[h] = append(e.facts[h], fact{atom, val})
}

type fact struct {
	atom *Term
	val  bool
}

// known reports whether the path condition contains c or its negation verbatim.
func (e *Explorer) known(c *Term) (val, ok bool) {
	atom, neg := c, false
	if c.op == "not" {
		atom, neg = c.args[0], true
	}
	for _, f := range e.facts[atom.hash()] {
		if termEqual(f.atom, atom) {
			return f.val != neg, true
		}
	}
	return false, false
}

func (e *Explorer) queue(alt Decision, model map[string]uint64) {
	p := make([]Decision, len(e.decisions)+1)
	copy(p, e.decisions)
	p[len(e.decisions)] = alt
	e.run.push(workItem{prefix: p, model: model})
	e.forks++
}

// Branch decides a symbolic condition and returns the side this path takes.
func (e *Explorer) Branch(c *Term) bool {
	if c.isTrue() {
		return true
	}
	if c.isFalse() {
		return false
	}
	if v, ok := e.known(c); ok {
		// already decided earlier on this path (same condition): no decision is recorded,
		// on replay the same lookup succeeds at the same place
		return v
	}
	if e.pos < len(e.prefix) {
		d := e.prefix[e.pos]
		e.pos++
		if d.Kind != 'b' {
			panic(engineError{"replay diverged: expected branch decision"})
		}
		e.record(d)
		if d.B {
			e.addPC(c)
		} else {
			e.addPC(mkNot(c))
		}
		return d.B
	}
	if debugBranches && e.where != nil {
		fmt.Fprintf(os.Stderr, "  [branch #%d] %s\n", len(e.decisions), e.where())
	}
	e.ensureModel()
	take, ok := e.evaluator().evalBool(c)
	if ok {
		atomic.AddInt64(&e.stats.EvalSkips, 1)
		other := mkNot(c)
		if !take {
			other = c
		}
		r, m := e.solver.Check(append(append([]*Term{}, e.pc...), other), "feas")
		if r == "sat" {
			e.queue(Decision{Kind: 'b', B: !take}, m)
		} else if r == "unknown" {
			e.queue(Decision{Kind: 'b', B: !take}, nil)
		}
	} else {
		rt, mt := e.solver.Check(append(append([]*Term{}, e.pc...), c), "feas")
		rf, mf := e.solver.Check(append(append([]*Term{}, e.pc...), mkNot(c)), "feas")
		switch {
		case rt == "sat":
			take = true
			e.setModel(mt)
			if rf != "unsat" {
				e.queue(Decision{Kind: 'b', B: false}, mf)
			}
		case rf == "sat":
			take = false
			e.setModel(mf)
			if rt != "unsat" {
				e.queue(Decision{Kind: 'b', B: true}, nil)
			}
		case rt == "unsat" && rf == "unsat":
			panic(pathAbort{"infeasible", "both branch sides unsatisfiable"})
		case rt == "unsat":
			take = false
			e.setModel(nil)
		case rf == "unsat":
			take = true
			e.setModel(nil)
		default:
			// both unknown: follow true, queue false
			take = true
			e.setModel(nil)
			e.queue(Decision{Kind: 'b', B: false}, nil)
		}
	}
	e.record(Decision{Kind: 'b', B: take})
	if take {
		e.addPC(c)
	} else {
		e.addPC(mkNot(c))
	}
	return take
}

// BranchValue is Branch on a value that may be concrete.
func (e *Explorer) BranchValue(c value) bool {
	if b, ok := c.(bool); ok {
		return b
	}
	return e.Branch(c.(sym).t)
}

// Concretize forks over the feasible values of a symbolic integer.
func (e *Explorer) Concretize(v value) value {
	s, ok := v.(sym)
	if !ok {
		return v
	}
	if s.k == types.Bool {
		return e.Branch(s.t)
	}
	bits, _ := kindBits(s.k)
	excluded := 0
	for {
		if e.pos < len(e.prefix) {
			d := e.prefix[e.pos]
			e.pos++
			if d.Kind != 'v' {
				panic(engineError{"replay diverged: expected value decision"})
			}
			e.record(d)
			eq := mkEq(s.t, mkConst(d.V, bits))
			if d.B {
				e.addPC(eq)
				return concreteOfKind(s.k, d.V)
			}
			e.addPC(mkNot(eq))
			excluded++
			continue
		}
		if excluded >= e.run.ConcretizeCap {
			panic(pathAbort{"budget", fmt.Sprintf("more than %d values for a concretised integer", e.run.ConcretizeCap)})
		}
		e.ensureModel()
		val, ok := e.evaluator().evalBV(s.t)
		if !ok {
			r, m := e.solver.Check(e.pc, "feas")
			if r != "sat" {
				panic(pathAbort{"unknown", "cannot obtain a value to concretise"})
			}
			// ask the solver for the term's value by naming it
			tmp := mkVar(fmt.Sprintf("zzconc__%d", e.nvars), bits)
			e.nvars++
			r, m = e.solver.Check(append(append([]*Term{}, e.pc...), mkEq(tmp, s.t)), "feas")
			if r != "sat" {
				panic(pathAbort{"unknown", "cannot obtain a value to concretise"})
			}
			val = m[tmp.name]
			delete(m, tmp.name)
			e.setModel(m)
		}
		eq := mkEq(s.t, mkConst(val, bits))
		r, m := e.solver.Check(append(append([]*Term{}, e.pc...), mkNot(eq)), "feas")
		if r == "sat" {
			e.queue(Decision{Kind: 'v', B: false, V: val}, m)
		} else if r == "unknown" {
			e.queue(Decision{Kind: 'v', B: false, V: val}, nil)
		}
		e.record(Decision{Kind: 'v', B: true, V: val})
		e.addPC(eq)
		return concreteOfKind(s.k, val)
	}
}

// Assume adds c to the path condition; an infeasible assumption ends the path.
func (e *Explorer) Assume(c value) {
	if b, ok := c.(bool); ok {
		if !b {
			panic(pathAbort{"assume-false", "assumption false on this path"})
		}
		return
	}
	t := c.(sym).t
	e.addPC(t)
	if e.pos < len(e.prefix) {
		return // replaying: the stored model satisfies the whole prefix
	}
	if e.model != nil {
		if v, ok := e.evaluator().evalBool(t); ok && v {
			return
		}
	}
	r, m := e.solver.Check(e.pc, "feas")
	switch r {
	case "sat":
		e.setModel(m)
	case "unsat":
		panic(pathAbort{"assume-false", "assumption unsatisfiable on this path"})
	default:
		e.setModel(nil)
	}
}

// Assert records an obligation. kf/region implement known findings: inside
// region a failure is attributed to the known finding kf.
func (e *Explorer) Assert(c value, label, kf string, region value, pos string) {
	if e.pos < len(e.prefix) {
		// replaying a prefix: the path that forked this one has already
		// checked this assertion under the same path condition
		if b, ok := c.(bool); ok {
			if !b {
				panic(engineError{"replay diverged: assertion concretely false inside a prefix"})
			}
			return
		}
		e.addPC(c.(sym).t)
		return
	}
	ob := Obligation{Harness: e.run.Name, Label: label, Path: pathString(e.decisions), Pos: pos}
	if b, ok := c.(bool); ok {
		if b {
			ob.Status = "holds"
			e.obligations = append(e.obligations, ob)
			return
		}
		// concretely false on a feasible path
		e.ensureModel()
		ob.Status = "violated"
		ob.Model = e.fullModel(e.model)
		if kf != "" {
			ob.KF = kf
			ob.InKF = e.inRegion(region, e.model)
		}
		e.obligations = append(e.obligations, ob)
		panic(pathAbort{"assert-false", "assertion concretely false: " + label})
	}
	t := c.(sym).t
	neg := mkNot(t)
	if kf != "" {
		// first look for a failure outside the known-finding region
		var rt *Term
		if rb, ok := region.(bool); ok {
			rt = mkBool(rb)
		} else {
			rt = region.(sym).t
		}
		r, m := e.solver.Check(append(append([]*Term{}, e.pc...), neg, mkNot(rt)), "oblig")
		switch r {
		case "sat":
			ob.Status = "violated"
			ob.Model = e.fullModel(m)
			e.obligations = append(e.obligations, ob)
		case "unknown":
			ob.Status = "unknown"
			e.obligations = append(e.obligations, ob)
		default:
			ob.Status = "holds"
			ob.Detail = "outside known-finding region " + kf
			e.obligations = append(e.obligations, ob)
		}
		// then inside the region
		ob2 := Obligation{Harness: e.run.Name, Label: label, Path: ob.Path, Pos: pos, KF: kf, InKF: true}
		r, m = e.solver.Check(append(append([]*Term{}, e.pc...), neg, rt), "oblig")
		switch r {
		case "sat":
			ob2.Status = "violated"
			ob2.Model = e.fullModel(m)
		case "unknown":
			ob2.Status = "unknown"
		default:
			ob2.Status = "holds"
			ob2.Detail = "inside known-finding region " + kf
		}
		e.obligations = append(e.obligations, ob2)
	} else {
		decided := false
		if e.model != nil && e.pos >= len(e.prefix) {
			if v, ok := e.evaluator().evalBool(t); ok && !v {
				ob.Status = "violated"
				ob.Model = e.fullModel(e.model)
				decided = true
			}
		}
		if !decided {
			r, m := e.solver.Check(append(append([]*Term{}, e.pc...), neg), "oblig")
			switch r {
			case "unsat":
				ob.Status = "holds"
			case "sat":
				ob.Status = "violated"
				ob.Model = e.fullModel(m)
			default:
				ob.Status = "unknown"
			}
		}
		e.obligations = append(e.obligations, ob)
	}
	// continue under the assumption that the assertion holds
	e.addPC(t)
	if e.pos >= len(e.prefix) {
		if e.model != nil {
			if v, ok := e.evaluator().evalBool(t); ok && v {
				return
			}
		}
		r, m := e.solver.Check(e.pc, "feas")
		switch r {
		case "sat":
			e.setModel(m)
		case "unsat":
			panic(pathAbort{"assert-false", "assertion fails for every input on this path: " + label})
		default:
			e.setModel(nil)
		}
	}
}

func (e *Explorer) inRegion(region value, model map[string]uint64) bool {
	if b, ok := region.(bool); ok {
		return b
	}
	v, ok := newEvaluator(model).evalBool(region.(sym).t)
	return ok && v
}

// fullModel returns values for every input variable created so far.
func (e *Explorer) fullModel(m map[string]uint64) map[string]uint64 {
	out := make(map[string]uint64, len(e.varKinds))
	for n := range e.varKinds {
		out[n] = m[n]
	}
	return out
}

// Cover marks a reachability witness.
func (e *Explorer) Cover(label string) { e.covers[label]++ }

// GoPanic is called when the target raises a Go run-time panic that nothing
// recovered: it is an obligation failure unless the harness allows panics.
func (e *Explorer) goPanic(msg, pos string) {
	if e.allowPanic {
		return
	}
	e.ensureModelQuiet()
	ob := Obligation{Harness: e.run.Name, Label: "no-go-panic", Status: "violated", Path: pathString(e.decisions), Pos: pos, Detail: msg}
	if e.model != nil {
		ob.Model = e.fullModel(e.model)
	} else {
		ob.Status = "unknown"
	}
	e.obligations = append(e.obligations, ob)
}

func (e *Explorer) ensureModelQuiet() {
	defer func() { recover() }()
	e.ensureModel()
}

// merge folds a finished path into the shared run.
func (e *Explorer) merge(end PathEnd) {
	r := e.run
	r.mu.Lock()
	defer r.mu.Unlock()
	r.Paths++
	r.Steps += e.steps
	r.Forks += e.forks
	r.Obligations = append(r.Obligations, e.obligations...)
	for _, ob := range e.obligations {
		if ob.Status == "violated" {
			r.violated++
		}
	}
	r.Ends[end.Status]++
	if end.Status != "ok" && len(r.EndSamples) < 40 {
		r.EndSamples = append(r.EndSamples, end)
	}
	if end.Status == "ok" && len(r.Witnesses) < r.WitnessCap && e.model != nil {
		clean := true
		for _, ob := range e.obligations {
			if ob.Status != "holds" {
				clean = false
			}
		}
		if clean {
			r.Witnesses = append(r.Witnesses, Witness{Model: e.fullModel(e.model), Path: end.Path})
		}
	}
	for k, v := range e.covers {
		r.Covers[k] += v
	}
	for k := range e.funcs {
		r.Funcs[k] = true
	}
	for k, v := range e.stubs {
		r.Stubs[k] += v
	}
	for k := range e.assumes {
		r.Assumes[k] = true
	}
}

func sortedKeys[V any](m map[string]V) []string {
	ks := make([]string, 0, len(m))
	for k := range m {
		ks = append(ks, k)
	}
	sort.Strings(ks)
	return ks
}

// trySingleton replaces s by a constant if the path condition allows only one
// value for it (decided with one query); otherwise s is returned unchanged.
func (e *Explorer) trySingleton(s sym) value {
	if e.model == nil || s.k == types.Bool {
		return s
	}
	v0, ok := e.evaluator().evalBV(s.t)
	if !ok {
		return s
	}
	bits, _ := kindBits(s.k)
	c := mkConst(v0, bits)
	r, _ := e.solver.Check(append(append([]*Term{}, e.pc...), mkNot(mkEq(s.t, c))), "feas")
	if r == "unsat" {
		return concreteOfKind(s.k, v0)
	}
	return s
}
