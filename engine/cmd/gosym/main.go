// gosym: bounded symbolic execution of the real JAM-Protocol code.
//
//	gosym -props C09,C12 -tier quick
//
// loads /repo (current working tree) with the harness files of the selected
// properties overlaid, explores every harness, replays counterexamples
// against the natively compiled code, writes /verif/evidence/<id>.json and
// prints VIOLATION / KNOWN-FINDING / INCONCLUSIVE lines.
package main

import (
	"encoding/json"
	"flag"
	"fmt"
	"go/ast"
	"go/parser"
	"go/token"
	"os"
	"os/exec"
	"path/filepath"
	"regexp"
	"sort"
	"strconv"
	"strings"
	"sync"
	"time"

	"golang.org/x/tools/go/packages"
	"golang.org/x/tools/go/ssa"
	"golang.org/x/tools/go/ssa/ssautil"

	"gosym/interp"
)

type harness struct {
	Name     string
	Prop     string
	PkgRel   string // package directory relative to /repo
	File     string // harness source file in /verif/harness
	Tier     string // quick | thorough
	Paths    int
	Workers  int
	Steps    int64
	Decisions int
	MaxViolations int
	ConcCap  int
	AllowPanic bool
	Doc      string
	run      *interp.HarnessRun
	wall     time.Duration
}

type kfEntry struct {
	ID       string `json:"id"`
	Property string `json:"property"`
	Harness  string `json:"harness"`
	Label    string `json:"label"`
	What     string `json:"what"`
	Status   string `json:"status"` // open | fixed
}

type kfFile struct {
	Findings []kfEntry `json:"findings"`
	Fixed    []string  `json:"fixed"`
}

var (
	flagProps   = flag.String("props", "", "comma-separated property ids (e.g. C09,C12)")
	flagTier    = flag.String("tier", "quick", "quick | thorough")
	flagVerif   = flag.String("verif", "/verif", "verification directory")
	flagRepo    = flag.String("repo", "/repo", "repository working tree")
	flagWorkers = flag.Int("workers", 16, "total worker machines")
	flagOnly    = flag.String("only", "", "regexp: run only matching harness names")
	flagDump    = flag.String("dump", "", "directory to dump SMT queries into")
	flagNoReplay = flag.Bool("noreplay", false, "skip native replay (debugging only; violations are then INCONCLUSIVE)")
	flagNoEvidence = flag.Bool("noevidence", false, "do not write evidence files")
	flagV       = flag.Bool("v", false, "verbose")
	flagWitness = flag.Int("witness", 3, "path witnesses per harness replayed natively")
	flagDeadline = flag.Int("deadline", 0, "seconds of exploration after which harnesses stop (0: 420 quick, 5400 thorough)")
)

func main() {
	flag.Parse()
	t0 := time.Now()
	seed, _ := strconv.Atoi(os.Getenv("VERIF_SEED"))
	if t := os.Getenv("VERIF_TIER"); t != "" && !isFlagSet("tier") {
		*flagTier = t
	}
	props := strings.Split(*flagProps, ",")
	if *flagProps == "" {
		fmt.Fprintln(os.Stderr, "no -props")
		os.Exit(2)
	}
	hs, err := discover(filepath.Join(*flagVerif, "harness"))
	if err != nil {
		fmt.Fprintln(os.Stderr, "harness discovery:", err)
		os.Exit(2)
	}
	var sel []*harness
	var only *regexp.Regexp
	if *flagOnly != "" {
		only = regexp.MustCompile(*flagOnly)
	}
	for _, h := range hs {
		if !contains(props, h.Prop) && *flagProps != "all" {
			continue
		}
		if *flagTier == "quick" && h.Tier == "thorough" {
			continue
		}
		if only != nil && !only.MatchString(h.Name) {
			continue
		}
		sel = append(sel, h)
	}
	if len(sel) == 0 {
		fmt.Fprintln(os.Stderr, "no harness selected")
		os.Exit(2)
	}
	kf := loadKF(filepath.Join(*flagVerif, "known_findings.json"))

	tmpDir, _ := os.MkdirTemp("", "gosym-")
	defer os.RemoveAll(tmpDir)

	prog, root, pkgs, err := load(sel)
	if err != nil {
		fmt.Fprintln(os.Stderr, "load:", err)
		os.Exit(2)
	}
	tLoad := time.Since(t0)
	if *flagV {
		fmt.Fprintf(os.Stderr, "loaded + SSA built in %v\n", tLoad.Round(time.Millisecond))
	}

	stats := &interp.SolverStats{}
	incMs, shotSec := 5000, 30
	if *flagTier == "thorough" {
		incMs, shotSec = 20000, 300
	}
	// machines
	var machines []*interp.Machine
	for i := 0; i < *flagWorkers; i++ {
		m := interp.NewMachine(prog, stats, tmpDir, incMs, shotSec)
		if *flagDump != "" {
			os.MkdirAll(*flagDump, 0o755)
			m.Solver().DumpDir = *flagDump
		}
		if *flagTier == "thorough" {
			m.Solver().CrossCheck = true
		}
		machines = append(machines, m)
	}
	defer func() {
		for _, m := range machines {
			m.Close()
		}
	}()

	dl := *flagDeadline
	if dl == 0 {
		dl = 420
		if *flagTier == "thorough" {
			dl = 5400
		}
	}
	deadline := time.Now().Add(time.Duration(dl) * time.Second)
	// schedule harnesses over the machine pool
	pool := make(chan *interp.Machine, len(machines))
	for _, m := range machines {
		pool <- m
	}
	var wg sync.WaitGroup
	missing := false
	// small harnesses first, and no single harness may hold the whole pool while
	// others are waiting
	// in the thorough tier the quick harnesses run first, so that a deep harness that uses up
	// the time limit cannot starve them
	sort.SliceStable(sel, func(i, j int) bool {
		ti, tj := sel[i].Tier == "thorough", sel[j].Tier == "thorough"
		if ti != tj {
			return tj
		}
		return sel[i].Workers < sel[j].Workers
	})
	for hi, h := range sel {
		pkg := pkgs[h.PkgRel]
		if pkg == nil {
			fmt.Fprintf(os.Stderr, "package %s not loaded\n", h.PkgRel)
			missing = true
			continue
		}
		fn := pkg.Func(h.Name)
		if fn == nil {
			fmt.Fprintf(os.Stderr, "harness %s not found in %s\n", h.Name, h.PkgRel)
			missing = true
			continue
		}
		run := interp.NewHarnessRun(h.Name)
		if h.Paths > 0 {
			run.MaxPaths = h.Paths
		}
		if h.Steps > 0 {
			run.MaxSteps = h.Steps
		}
		if h.Decisions > 0 {
			run.MaxDecisions = h.Decisions
		}
		if h.ConcCap > 0 {
			run.ConcretizeCap = h.ConcCap
		}
		run.AllowPanic = h.AllowPanic
		run.WitnessCap = *flagWitness
		run.Deadline = deadline
		run.MaxViolations = 12
		if h.MaxViolations > 0 {
			run.MaxViolations = h.MaxViolations
		}
		h.run = run
		nw := h.Workers
		if nw <= 0 {
			nw = 2
		}
		if nw > len(machines) {
			nw = len(machines)
		}
		if rest := len(sel) - hi - 1; rest > 0 && nw > len(machines)*3/4 {
			nw = len(machines) * 3 / 4
		}
		ms := make([]*interp.Machine, 0, nw)
		for len(ms) < nw {
			ms = append(ms, <-pool)
		}
		wg.Add(1)
		go func(h *harness, ms []*interp.Machine) {
			defer wg.Done()
			t1 := time.Now()
			interp.RunHarness(ms, h.run, root, fn)
			h.wall = time.Since(t1)
			if *flagV {
				fmt.Fprintf(os.Stderr, "[%s] paths=%d obligations=%d wall=%v ends=%v\n", h.Name, h.run.Paths, len(h.run.Obligations), h.wall.Round(time.Millisecond), h.run.Ends)
				for i, e := range h.run.EndSamples {
					if i < 5 {
						fmt.Fprintf(os.Stderr, "    end %s: %s [path %s]\n", e.Status, e.Detail, e.Path)
					}
				}
			}
			for _, m := range ms {
				pool <- m
			}
		}(h, ms)
	}
	wg.Wait()
	if missing {
		os.Exit(2)
	}
	tExplore := time.Since(t0) - tLoad

	// ---- native replay ---------------------------------------------------
	res := triage(sel, kf, tmpDir)

	// ---- evidence + output --------------------------------------------------
	exit := 0
	byProp := map[string][]*harness{}
	for _, h := range sel {
		byProp[h.Prop] = append(byProp[h.Prop], h)
	}
	for _, p := range sortedKeys(byProp) {
		pv := report(p, byProp[p], res, kf, stats, seed, tLoad, tExplore, time.Since(t0))
		if pv > 0 {
			exit = 1
		}
	}
	os.Exit(exit)
}

func isFlagSet(name string) bool {
	set := false
	flag.Visit(func(f *flag.Flag) {
		if f.Name == name {
			set = true
		}
	})
	return set
}

func contains(xs []string, x string) bool {
	for _, y := range xs {
		if strings.TrimSpace(y) == x {
			return true
		}
	}
	return false
}

func sortedKeys[V any](m map[string]V) []string {
	ks := make([]string, 0, len(m))
	for k := range m {
		ks = append(ks, k)
	}
	sort.Strings(ks)
	return ks
}

var nameRe = regexp.MustCompile(`^ZZ_(C[0-9]+)_`)

// discover parses every harness file and lists the ZZ_Cxx_* functions.
func discover(dir string) ([]*harness, error) {
	var out []*harness
	fset := token.NewFileSet()
	err := filepath.Walk(dir, func(path string, info os.FileInfo, err error) error {
		if err != nil || info.IsDir() || !strings.HasSuffix(path, ".go") {
			return err
		}
		f, err := parser.ParseFile(fset, path, nil, parser.ParseComments)
		if err != nil {
			return err
		}
		rel, _ := filepath.Rel(dir, filepath.Dir(path))
		for _, d := range f.Decls {
			fd, ok := d.(*ast.FuncDecl)
			if !ok || fd.Recv != nil {
				continue
			}
			m := nameRe.FindStringSubmatch(fd.Name.Name)
			if m == nil {
				continue
			}
			h := &harness{Name: fd.Name.Name, Prop: m[1], PkgRel: rel, File: path, Tier: "quick"}
			if fd.Doc != nil {
				h.Doc = fd.Doc.Text()
				for _, c := range fd.Doc.List {
					t := strings.TrimSpace(strings.TrimPrefix(c.Text, "//"))
					if !strings.HasPrefix(t, "zz:") {
						continue
					}
					for _, kv := range strings.Fields(strings.TrimPrefix(t, "zz:")) {
						k, v, _ := strings.Cut(kv, "=")
						switch k {
						case "tier":
							h.Tier = v
						case "paths":
							h.Paths, _ = strconv.Atoi(v)
						case "workers":
							h.Workers, _ = strconv.Atoi(v)
						case "steps":
							n, _ := strconv.ParseInt(v, 10, 64)
							h.Steps = n
						case "decisions":
							h.Decisions, _ = strconv.Atoi(v)
						case "conccap":
							h.ConcCap, _ = strconv.Atoi(v)
						case "violations":
							h.MaxViolations, _ = strconv.Atoi(v)
						case "allowpanic":
							h.AllowPanic = true
						}
					}
				}
			}
			out = append(out, h)
		}
		return nil
	})
	sort.Slice(out, func(i, j int) bool { return out[i].Name < out[j].Name })
	return out, err
}

func loadKF(path string) *kfFile {
	k := &kfFile{}
	raw, err := os.ReadFile(path)
	if err != nil {
		return k
	}
	if err := json.Unmarshal(raw, k); err != nil {
		fmt.Fprintln(os.Stderr, "known_findings.json:", err)
		os.Exit(2)
	}
	return k
}

func (k *kfFile) open(id string) *kfEntry {
	for i := range k.Findings {
		if k.Findings[i].ID == id && k.Findings[i].Status == "open" {
			return &k.Findings[i]
		}
	}
	return nil
}

// overlayFiles returns virtual path -> real file for everything that has to
// be injected into /repo: harness files, zzvt, VRF and erasure stand-ins.
func overlayFiles(sel []*harness, native bool) map[string]string {
	ov := map[string]string{}
	v := *flagVerif
	zz := "zzvt_engine.go.txt"
	if native {
		zz = "zzvt_native.go.txt"
	}
	ov[filepath.Join(*flagRepo, "internal/zzvt/zzvt.go")] = filepath.Join(v, "zzvt", zz)
	ov[filepath.Join(*flagRepo, "internal/zzvt/common.go")] = filepath.Join(v, "zzvt", "zzvt_common.go.txt")
	ov[filepath.Join(*flagRepo, "pkg/Rust-VRF/vrf-func-ffi/src/vrf.go")] = filepath.Join(v, "stubs/vrf.go.txt")
	ov[filepath.Join(*flagRepo, "pkg/erasure_coding/erasure_coding.go")] = filepath.Join(v, "stubs/erasure.go.txt")
	// every harness file is overlaid (helper files in one package may be used
	// by harnesses of another); packages that are not imported are not loaded
	filepath.Walk(filepath.Join(v, "harness"), func(path string, info os.FileInfo, err error) error {
		if err == nil && !info.IsDir() && strings.HasSuffix(path, ".go") {
			rel, _ := filepath.Rel(filepath.Join(v, "harness"), filepath.Dir(path))
			ov[filepath.Join(*flagRepo, rel, "zz_verif_"+filepath.Base(path))] = path
		}
		return nil
	})
	return ov
}

func load(sel []*harness) (*ssa.Program, *ssa.Package, map[string]*ssa.Package, error) {
	ov := map[string][]byte{}
	for virt, real := range overlayFiles(sel, false) {
		b, err := os.ReadFile(real)
		if err != nil {
			return nil, nil, nil, err
		}
		ov[virt] = b
	}
	dirs := map[string]bool{}
	for _, h := range sel {
		dirs[h.PkgRel] = true
	}
	var sb strings.Builder
	sb.WriteString("package main\nimport (\n")
	for _, d := range sortedKeys(dirs) {
		fmt.Fprintf(&sb, "\t_ %q\n", interp.RepoPath+"/"+d)
	}
	sb.WriteString(")\nfunc main() {}\n")
	ov[filepath.Join(*flagRepo, "cmd/zzharness/main.go")] = []byte(sb.String())

	env := os.Environ()
	env = append(env, "GOFLAGS=-mod=mod", "GOPROXY=off", "GOSUMDB=off", "GOTOOLCHAIN=local",
		"PATH=/opt/veriftools/go1.26.8/bin:"+os.Getenv("PATH"))
	cfg := &packages.Config{
		Mode: packages.NeedName | packages.NeedFiles | packages.NeedCompiledGoFiles | packages.NeedImports | packages.NeedDeps |
			packages.NeedTypes | packages.NeedSyntax | packages.NeedTypesInfo | packages.NeedTypesSizes | packages.NeedModule,
		Dir:     *flagRepo,
		Env:     env,
		Overlay: ov,
	}
	oldPath := os.Getenv("PATH")
	os.Setenv("PATH", "/opt/veriftools/go1.26.8/bin:"+oldPath) // go/packages resolves "go" through the parent's PATH
	pkgs, err := packages.Load(cfg, "./cmd/zzharness")
	os.Setenv("PATH", oldPath)
	if err != nil {
		return nil, nil, nil, err
	}
	if packages.PrintErrors(pkgs) > 0 {
		return nil, nil, nil, fmt.Errorf("the tree (with harnesses overlaid) does not type-check")
	}
	prog, spkgs := ssautil.AllPackages(pkgs, ssa.InstantiateGenerics)
	prog.Build()
	byRel := map[string]*ssa.Package{}
	for d := range dirs {
		byRel[d] = prog.ImportedPackage(interp.RepoPath + "/" + d)
	}
	return prog, spkgs[0], byRel, nil
}

// ---------------------------------------------------------------------------
// triage: replay violated obligations (and a few path witnesses) natively.

type replayCase struct {
	Harness string            `json:"harness"`
	Label   string            `json:"label"`
	Model   map[string]uint64 `json:"model"`
	Path    string            `json:"path,omitempty"`
	Detail  string            `json:"detail,omitempty"`
	// bookkeeping (not read by the native side)
	Kind    string `json:"kind"` // violation | witness
	KF      string `json:"kf,omitempty"`
	Outcome string `json:"outcome,omitempty"`
	File    string `json:"-"`
	Prop    string `json:"-"`
}

type triageResult struct {
	cases []*replayCase
}

func triage(sel []*harness, kf *kfFile, tmpDir string) *triageResult {
	res := &triageResult{}
	byPkg := map[string][]*replayCase{}
	for _, h := range sel {
		seen := map[string]int{}
		for _, ob := range h.run.Obligations {
			if ob.Status != "violated" {
				continue
			}
			key := ob.Label + "|" + ob.KF + "|" + fmt.Sprint(ob.InKF)
			if seen[key] >= 10 { // replay up to ten counterexamples per obligation: engine-only ones (hash coincidences) must not hide a real one
				continue
			}
			seen[key]++
			c := &replayCase{Harness: h.Name, Label: ob.Label, Model: ob.Model, Path: ob.Path, Detail: ob.Detail, Kind: "violation", Prop: h.Prop}
			if ob.InKF {
				c.KF = ob.KF
			}
			res.cases = append(res.cases, c)
			byPkg[h.PkgRel] = append(byPkg[h.PkgRel], c)
		}
		for _, w := range h.run.Witnesses {
			c := &replayCase{Harness: h.Name, Label: "<witness>", Model: w.Model, Path: w.Path, Kind: "witness", Prop: h.Prop}
			res.cases = append(res.cases, c)
			byPkg[h.PkgRel] = append(byPkg[h.PkgRel], c)
		}
	}
	if *flagNoReplay {
		for _, c := range res.cases {
			c.Outcome = "not-replayed"
		}
		return res
	}
	var wg sync.WaitGroup
	sem := make(chan struct{}, 4)
	for pkgRel, cases := range byPkg {
		wg.Add(1)
		go func(pkgRel string, cases []*replayCase) {
			defer wg.Done()
			sem <- struct{}{}
			defer func() { <-sem }()
			replayPkg(sel, pkgRel, cases, tmpDir)
		}(pkgRel, cases)
	}
	wg.Wait()
	return res
}

var resultRe = regexp.MustCompile(`ZZ-REPLAY-RESULT case=(\d+) harness=(\S+) label=(.*) outcome=(.*)`)

func replayPkg(sel []*harness, pkgRel string, cases []*replayCase, tmpDir string) {
	// test file listing the harnesses of this package
	names := map[string]bool{}
	for _, h := range sel {
		if h.PkgRel == pkgRel {
			names[h.Name] = true
		}
	}
	pkgName := packageName(sel, pkgRel)
	var sb strings.Builder
	fmt.Fprintf(&sb, "package %s\n\nimport (\n\t\"testing\"\n\t\"%s/internal/zzvt\"\n)\n\nfunc TestZZReplay(t *testing.T) {\n\tzzvt.RunReplay(map[string]func(){\n", pkgName, interp.RepoPath)
	for _, n := range sortedKeys(names) {
		fmt.Fprintf(&sb, "\t\t%q: %s,\n", n, n)
	}
	sb.WriteString("\t})\n}\n")
	safe := strings.ReplaceAll(pkgRel, "/", "_")
	testFile := filepath.Join(tmpDir, "replay_"+safe+"_test.go")
	os.WriteFile(testFile, []byte(sb.String()), 0o644)
	caseFile := filepath.Join(tmpDir, "cases_"+safe+".json")
	raw, _ := json.Marshal(cases)
	os.WriteFile(caseFile, raw, 0o644)

	ov := struct{ Replace map[string]string }{Replace: overlayFiles(sel, true)}
	ov.Replace[filepath.Join(*flagRepo, pkgRel, "zz_verif_replay_test.go")] = testFile
	ovFile := filepath.Join(tmpDir, "overlay_"+safe+".json")
	rawOv, _ := json.Marshal(ov)
	os.WriteFile(ovFile, rawOv, 0o644)

	cmd := exec.Command("go", "test", "-vet=off", "-count=1", "-overlay", ovFile, "-run", "^TestZZReplay$", "-timeout", "600s", "-v", "./"+pkgRel)
	cmd.Dir = *flagRepo
	env := []string{}
	for _, e := range os.Environ() {
		if strings.HasPrefix(e, "GOFLAGS=") || strings.HasPrefix(e, "GOTOOLCHAIN=") || strings.HasPrefix(e, "GOSUMDB=") || strings.HasPrefix(e, "ZZ_REPLAY=") {
			continue
		}
		env = append(env, e)
	}
	env = append(env, "GOFLAGS=-mod=mod", "GOPROXY=off", "ZZ_REPLAY="+caseFile)
	cmd.Env = env
	out, err := cmd.CombinedOutput()
	got := map[int]string{}
	for _, m := range resultRe.FindAllStringSubmatch(string(out), -1) {
		i, _ := strconv.Atoi(m[1])
		got[i] = m[4]
	}
	for i, c := range cases {
		if o, ok := got[i]; ok {
			c.Outcome = o
		} else {
			c.Outcome = "replay-failed"
			if err != nil && *flagV {
				fmt.Fprintf(os.Stderr, "replay of %s failed: %v\n%s\n", pkgRel, err, tail(string(out), 3000))
			}
		}
	}
	if len(got) == 0 {
		fmt.Fprintf(os.Stderr, "native replay for %s produced no results: %v\n%s\n", pkgRel, err, tail(string(out), 3000))
	}
}

func tail(s string, n int) string {
	if len(s) > n {
		return s[len(s)-n:]
	}
	return s
}

func packageName(sel []*harness, pkgRel string) string {
	for _, h := range sel {
		if h.PkgRel == pkgRel {
			fset := token.NewFileSet()
			f, err := parser.ParseFile(fset, h.File, nil, parser.PackageClauseOnly)
			if err == nil {
				return f.Name.Name
			}
		}
	}
	return filepath.Base(pkgRel)
}

// ---------------------------------------------------------------------------

type evidence struct {
	PropertyID  string         `json:"property_id"`
	Tier        string         `json:"tier"`
	Seed        int            `json:"seed"`
	Level       string         `json:"level"`
	Coverage    map[string]any `json:"coverage"`
	Assumptions []string       `json:"assumptions"`
	WallS       float64        `json:"wall_s"`
	Violations  int            `json:"violations"`
}

func report(prop string, hs []*harness, res *triageResult, kf *kfFile, stats *interp.SolverStats, seed int, tLoad, tExplore, total time.Duration) int {
	violations := 0
	inconclusive := 0
	var lines []string
	paths, obligations, discharged, nontrivial := 0, 0, 0, 0
	var steps int64
	funcs := map[string]bool{}
	stubs := map[string]int{}
	notes := map[string]bool{}
	var samples []any
	var harnessInfo []any
	validated := 0
	knownPrinted := map[string]bool{}

	caseFor := map[string][]*replayCase{}
	for _, c := range res.cases {
		if c.Prop == prop {
			caseFor[c.Harness] = append(caseFor[c.Harness], c)
		}
	}
	replayDir := filepath.Join(*flagVerif, "replay", prop)

	for _, h := range hs {
		r := h.run
		paths += r.Paths
		steps += r.Steps
		hv, hu, hh := 0, 0, 0
		distinct := map[string]bool{}
		for _, ob := range r.Obligations {
			obligations++
			switch ob.Status {
			case "holds":
				discharged++
				hh++
				distinct[ob.Label+"|"+ob.Path] = true
			case "unknown":
				hu++
				inconclusive++
				lines = append(lines, fmt.Sprintf("INCONCLUSIVE property=%s harness=%s obligation=%s reason=solver-unknown path=%q", prop, h.Name, ob.Label, ob.Path))
			case "violated":
				hv++
			}
		}
		nontrivial += len(distinct)
		for k := range r.Funcs {
			funcs[k] = true
		}
		for k, v := range r.Stubs {
			stubs[k] += v
		}
		for k := range r.Assumes {
			notes[k] = true
		}
		for st, n := range r.Ends {
			switch st {
			case "ok", "go-panic", "assume-false", "infeasible", "assert-false":
			default:
				inconclusive += n
				lines = append(lines, fmt.Sprintf("INCONCLUSIVE property=%s harness=%s reason=%s paths=%d detail=%q", prop, h.Name, st, n, endDetail(r, st)))
			}
		}
		if r.BoundExceeded != "" {
			inconclusive++
			lines = append(lines, fmt.Sprintf("INCONCLUSIVE property=%s harness=%s reason=bound-exceeded detail=%q", prop, h.Name, r.BoundExceeded))
		}
		if r.Ends["ok"] == 0 && hv == 0 {
			// vacuity guard: a harness none of whose paths completes proves nothing
			inconclusive++
			lines = append(lines, fmt.Sprintf("INCONCLUSIVE property=%s harness=%s reason=vacuous detail=%q", prop, h.Name, "no path reached the end of the harness"))
		}
		// replay outcomes
		for _, c := range caseFor[h.Name] {
			switch c.Kind {
			case "witness":
				if strings.HasPrefix(c.Outcome, "not-reproduced(no failure)") {
					validated++
				} else if c.Outcome != "not-replayed" {
					inconclusive++
					lines = append(lines, fmt.Sprintf("INCONCLUSIVE property=%s harness=%s reason=engine-native-mismatch detail=%q", prop, h.Name, "path the engine finished without violation behaves differently natively: "+c.Outcome))
				}
			case "violation":
				confirmed := strings.HasPrefix(c.Outcome, "confirmed")
				if confirmed {
					validated++
				}
				e := (*kfEntry)(nil)
				if c.KF != "" {
					e = kf.open(c.KF)
				}
				switch {
				case confirmed && e != nil:
					if !knownPrinted[e.ID] {
						knownPrinted[e.ID] = true
						lines = append(lines, fmt.Sprintf("KNOWN-FINDING: property=%s %s [%s harness=%s label=%s]", prop, e.What, e.ID, h.Name, c.Label))
					}
				case confirmed:
					violations++
					os.MkdirAll(replayDir, 0o755)
					fn := filepath.Join(replayDir, fmt.Sprintf("%s-%s-%d.json", h.Name, sanitizeFile(c.Label), violations))
					raw, _ := json.MarshalIndent([]*replayCase{c}, "", " ")
					os.WriteFile(fn, raw, 0o644)
					lines = append(lines, fmt.Sprintf("VIOLATION property=%s replay=%s", prop, fn))
					lines = append(lines, fmt.Sprintf("  harness=%s assertion=%s native=%q %s", h.Name, c.Label, c.Outcome, c.Detail))
				default:
					inconclusive++
					lines = append(lines, fmt.Sprintf("INCONCLUSIVE property=%s harness=%s obligation=%s reason=counterexample-not-confirmed-natively detail=%q", prop, h.Name, c.Label, c.Outcome))
				}
				if len(samples) < 12 {
					samples = append(samples, map[string]any{"kind": "counterexample", "harness": h.Name, "assertion": c.Label, "path": c.Path, "model": c.Model, "native": c.Outcome, "known_finding": c.KF})
				}
			}
		}
		// a few discharged obligations as samples
		ns := 0
		for _, ob := range r.Obligations {
			if ob.Status == "holds" && ns < 2 {
				ns++
				samples = append(samples, map[string]any{"kind": "discharged", "harness": h.Name, "assertion": ob.Label, "path_decisions": ob.Path, "solver": "unsat(path condition ∧ ¬assertion)"})
			}
		}
		harnessInfo = append(harnessInfo, map[string]any{
			"harness": h.Name, "package": h.PkgRel, "doc": strings.TrimSpace(h.Doc),
			"paths": r.Paths, "path_ends": r.Ends, "forks": r.Forks, "ssa_instructions": r.Steps,
			"obligations": len(r.Obligations), "holds": hh, "violated": hv, "unknown": hu,
			"covers": r.Covers, "bounds": map[string]any{"max_paths": r.MaxPaths, "max_decisions_per_path(unwind)": r.MaxDecisions, "max_ssa_instructions_per_path": r.MaxSteps, "concretize_cap": r.ConcretizeCap},
			"bound_exceeded": r.BoundExceeded, "wall_s": h.wall.Seconds(),
		})
	}
	backend := map[string]float64{}
	stats.ByBackend.Range(func(k, v any) bool {
		backend[k.(string)] = float64(*(v.(*int64))) / 1e9
		return true
	})
	if len(samples) == 0 {
		samples = append(samples, "no obligations")
	}
	cov := map[string]any{
		"states":                        max1(paths),
		"transitions":                   max1(int(steps)),
		"traces_validated_against_impl": validated,
		"samples":                       samples,
		"obligations":                   obligations,
		"discharged":                    discharged,
		"inconclusive":                  inconclusive,
		"evaluations":                   max1(int(stats.Queries)),
		"distinct_nontrivial":           nontrivial,
		"rule":                          "one evaluation = one SMT query (all harnesses of this invocation); distinct_nontrivial = distinct (assertion, path) pairs whose negation the solver refuted under the path condition",
		"explanation":                   "bounded symbolic execution of the real functions (go/ssa of /repo's working tree, rebuilt this run) with SMT-decided path feasibility and assertions; states = symbolic paths completed, transitions = SSA instructions interpreted",
		"functions_encoded":             sortedKeys(funcs),
		"stubs_and_intrinsics":          stubs,
		"harnesses":                     harnessInfo,
		"solver": map[string]any{"queries": stats.Queries, "incremental": stats.IncQueries, "one_shot": stats.OneShotQueries, "sat": stats.Sat, "unsat": stats.Unsat, "unknown": stats.Unknown,
			"branch_sides_decided_by_model_evaluation": stats.EvalSkips, "solver_s": float64(stats.Nanos) / 1e9, "per_backend_s": backend,
			"note": "solver counters are totals of this gosym invocation (all properties it was asked to run)"},
		"timing_s":   map[string]float64{"load_and_ssa": tLoad.Seconds(), "explore": tExplore.Seconds(), "total": total.Seconds()},
		"exhaustive": false,
		"checker_cmd": "z3 4.8.12 (incremental + one-shot), z3-new 5.1.0 and cvc5 1.0 as fall-backs",
		"trusted_base": []string{"golang.org/x/tools go/ssa construction", "gosym interpreter fork (engine/interp)", "z3/cvc5", "harness oracles (harness/*)"},
	}
	ev := evidence{PropertyID: prop, Tier: *flagTier, Seed: seed, Level: "model_checking", Coverage: cov,
		Assumptions: append([]string{"bounds listed per harness (path, unwind and size limits; sizes stated in each harness doc)", "stubs/intrinsics listed under coverage.stubs_and_intrinsics are part of the claim"}, sortedKeys(notes)...),
		WallS: total.Seconds(), Violations: violations}
	if !*flagNoEvidence {
		os.MkdirAll(filepath.Join(*flagVerif, "evidence"), 0o755)
		raw, _ := json.MarshalIndent(ev, "", " ")
		os.WriteFile(filepath.Join(*flagVerif, "evidence", prop+".json"), raw, 0o644)
	}
	for _, l := range lines {
		fmt.Println(l)
	}
	fmt.Printf("SUMMARY property=%s tier=%s harnesses=%d paths=%d obligations=%d discharged=%d violations=%d inconclusive=%d validated_natively=%d wall=%.1fs\n",
		prop, *flagTier, len(hs), paths, obligations, discharged, violations, inconclusive, validated, total.Seconds())
	return violations
}

func max1(n int) int {
	if n < 1 {
		return 1
	}
	return n
}

func endDetail(r *interp.HarnessRun, st string) string {
	for _, e := range r.EndSamples {
		if e.Status == st {
			return e.Detail
		}
	}
	return ""
}

func sanitizeFile(s string) string {
	return regexp.MustCompile(`[^A-Za-z0-9_.-]+`).ReplaceAllString(s, "_")
}
