#!/bin/sh
# Build the gosym engine offline from the sources in /verif/engine (module cache only).
set -e
cd /verif/engine
export GOFLAGS=-mod=mod GOPROXY=off GOSUMDB=off GOTOOLCHAIN=local
mkdir -p /verif/bin /verif/evidence
go1.26.8 build -o /verif/bin/gencodec ./cmd/gencodec
go1.26.8 build -o /verif/bin/gosym ./cmd/gosym
echo "gosym built"
