package PVM

import (
	"github.com/New-JAMneration/JAM-Protocol/internal/service_account"
	"github.com/New-JAMneration/JAM-Protocol/internal/types"
	"github.com/New-JAMneration/JAM-Protocol/internal/zzvt"
)

// zzDerived: items and octets derived from the actual entries (9.8): 1 item and 34+|k|+|v|
// octets per storage entry, 2 items and 81+z octets per lookup entry.
func zzDerived(a types.ServiceAccount) (uint64, uint64) {
	var items, octets uint64
	for k, v := range a.StorageDict {
		items++
		octets += 34 + uint64(len(k)) + uint64(len(v))
	}
	for k := range a.LookupDict {
		items += 2
		octets += 81 + uint64(k.Length)
	}
	return items, octets
}

// ZZ_C09_footprint: CalcKeys/CalcOctets/GetServiceAccountDerivatives on accounts with 0..2
// storage entries (values 0..3 bytes) and 0..2 lookup entries (any 32-bit length).
//zz:workers=8
func ZZ_C09_footprint() {
	a := zzEmptyAccount(types.ServiceInfo{DepositOffset: types.U64(zzvt.U64("gratis"))})
	ns := zzvt.Range("storageEntries", 0, 2)
	for i := 0; i < ns; i++ {
		a.StorageDict[[]string{"a", "bc"}[i]] = make([]byte, zzvt.Range("valueLen", 0, 3))
	}
	nl := zzvt.Range("lookupEntries", 0, 2)
	for i := 0; i < nl; i++ {
		a.LookupDict[types.LookupMetaMapkey{Hash: types.OpaqueHash{byte(i + 1)}, Length: types.U32(zzvt.U32("z"))}] = types.TimeSlotSet{}
	}
	items, octets := zzDerived(a)
	d := service_account.GetServiceAccountDerivatives(a)
	zzvt.Assert(uint64(d.Items) == items && uint64(service_account.CalcKeys(a)) == items, "item-count")
	zzvt.Assert(uint64(d.Bytes) == octets && uint64(service_account.CalcOctets(a)) == octets, "octet-count")
	zzvt.Assert(d.Minbalance == service_account.CalcThresholdBalance(d.Items, d.Bytes, a.ServiceInfo.DepositOffset), "threshold-from-derived-counts")
}

// zzFootprintCtx: the caller owns storage entry "a" (value of 0..2 bytes) and one lookup record
// (hash 7.., length 5, 0..3 slots); its recorded item/octet counts equal the derived values
// (invariant J); balance and gratis offset are arbitrary.
func zzFootprintCtx() (OmegaInput, *Registers) {
	caller := zzEmptyAccount(types.ServiceInfo{Balance: types.U64(zzvt.U64("balance")), DepositOffset: types.U64(zzvt.U64("gratis"))})
	caller.StorageDict["a"] = make([]byte, zzvt.Range("oldValueLen", 0, 2))
	var lh types.OpaqueHash
	lh[0] = 7
	slots := make(types.TimeSlotSet, zzvt.Range("lookupSlots", 0, 3))
	for i := range slots {
		slots[i] = types.TimeSlot(i + 1)
	}
	caller.LookupDict[types.LookupMetaMapkey{Hash: lh, Length: 5}] = slots
	items, octets := zzDerived(caller)
	caller.ServiceInfo.Items, caller.ServiceInfo.Bytes = types.U32(items), types.U64(octets)
	args, _ := zzAccumulateCtx(types.ServiceAccountState{zzCaller: caller})
	args.Timeslot = 1000
	regs := zzSymRegs()
	gas := Gas(1 << 40)
	mem := zzGuestMem()
	pg := mem.Pages[16]
	for i := 0; i < 32; i++ {
		pg.Value[i] = lh[i]
	}
	pg.Value[64], pg.Value[65] = 'a', 'b'
	return OmegaInput{VM: &VMState{Registers: &regs, Memory: mem, Gas: &gas}, Addition: args}, &regs
}

// ZZ_C09_step: one storage-changing host call (write new / overwrite / delete / delete absent,
// solicit new of any length / solicit existing, forget) from an arbitrary account satisfying
// "recorded counts = derived counts": the invariant holds again afterwards; and a call that
// answers FULL (new threshold above the balance) leaves the account's counts and entries
// unchanged.
//zz:workers=16
func ZZ_C09_step() {
	in, regs := zzFootprintCtx()
	before := in.Addition.ResultContextX.PartialState.ServiceAccounts[zzCaller]
	bi, bo := zzDerived(before)
	call := zzvt.Range("call", 0, 6)
	var out OmegaOutput
	switch call {
	case 0: // write a new key "b" with a value of 1..3 bytes
		regs[7], regs[8], regs[9], regs[10] = zzGuestBase+65, 1, zzGuestBase+100, uint64(zzvt.Range("newValueLen", 1, 3))
		out = write(in)
	case 1: // overwrite "a"
		regs[7], regs[8], regs[9], regs[10] = zzGuestBase+64, 1, zzGuestBase+100, uint64(zzvt.Range("newValueLen", 1, 3))
		out = write(in)
	case 2: // delete "a"
		regs[7], regs[8], regs[10] = zzGuestBase+64, 1, 0
		out = write(in)
	case 3: // delete absent "b"
		regs[7], regs[8], regs[10] = zzGuestBase+65, 1, 0
		out = write(in)
	case 4: // solicit a new (hash, length)
		regs[7] = zzGuestBase
		zzvt.Assume(regs[8] != 5 && regs[8] < 1<<32)
		out = solicit(in)
	case 5: // solicit the existing record
		regs[7], regs[8] = zzGuestBase, 5
		out = solicit(in)
	case 6:
		regs[7], regs[8] = zzGuestBase, 5
		out = forget(in)
	}
	zzvt.Assert(out.ExitReason == ExitContinue, "call-returns")
	after := out.Addition.ResultContextX.PartialState.ServiceAccounts[zzCaller]
	ai, ao := zzDerived(after)
	zzvt.Assert(uint64(after.ServiceInfo.Items) == ai, "recorded-items-equal-derived")
	zzvt.Assert(uint64(after.ServiceInfo.Bytes) == ao, "recorded-octets-equal-derived")
	if regs[7] == FULL {
		zzvt.Cover("FULL")
		zzvt.Assert(ai == bi && ao == bo && after.ServiceInfo == before.ServiceInfo, "FULL-leaves-the-account-unchanged")
	} else {
		// the balance covers the (representable) threshold of the new footprint
		th := zzThreshold(after.ServiceInfo)
		if ai > bi || ao > bo {
			zzvt.Assert(th.le(zzU128{0, uint64(after.ServiceInfo.Balance)}), "growth-only-with-sufficient-balance")
		}
	}
}
