package PVM

import "github.com/New-JAMneration/JAM-Protocol/internal/zzvt"

// ---- inner machines (refine host calls machine/peek/poke/pages/invoke/expunge) -------------

// a tiny valid program blob: |j| = 0, z = 0, |c| = 1, code = [trap], bitmask = [1]
var zzTrapBlob = []byte{0, 0, 1, 0, 1}

// zzInner builds an inner machine whose pages 16 (read-write, arbitrary first bytes), 17
// (read-only) are mapped, like the guest memory.
func zzInner(code []byte, pc uint64) IntegratedPVMType {
	p16 := &Page{Value: make([]byte, ZP), Access: MemoryReadWrite}
	zzvt.FillBytes("inner", p16.Value[:8])
	p17 := &Page{Value: make([]byte, ZP), Access: MemoryReadOnly}
	p17.Value[0] = zzvt.U8("innerRO")
	return IntegratedPVMType{ProgramCode: ProgramCode(code), Memory: Memory{Pages: map[uint32]*Page{16: p16, 17: p17}}, PC: ProgramCounter(pc)}
}

func zzRefineInput(m IntegratedPVMMap) (OmegaInput, *Registers, *Gas) {
	var regs Registers
	for i := range regs {
		regs[i] = zzvt.U64("reg")
	}
	gas := Gas(1000)
	in := OmegaInput{VM: &VMState{Registers: &regs, Memory: zzGuestMem(), Gas: &gas}}
	in.Addition.IntegratedPVMMap = m
	return in, &regs, &gas
}

// zzAddrClass: writable (page 16), readable only (page 17), unmapped.
func zzAddrClass(tag string) (addr uint64, readable, writable bool) {
	switch zzvt.Range(tag, 0, 2) {
	case 0:
		return zzGuestBase + 8, true, true
	case 1:
		return 17 * ZP, true, false
	}
	return 0x30000, false, false
}

func zzPageBytes(m *Memory, addr uint64, n int) []byte {
	pg := m.Pages[uint32(addr/ZP)]
	off := int(addr % ZP)
	return append([]byte(nil), pg.Value[off:off+n]...)
}

// ZZ_C33_machine: machine(po, pz, i) with the program at a readable / unreadable address and
// a valid or an invalid blob: unreadable -> panic, machine set unchanged; invalid blob -> HUH,
// unchanged; otherwise register 7 is the smallest unused index, the new machine holds exactly
// the blob, the given counter and a memory in which no page is accessible, and the other
// machines are untouched (index sets with gaps left by expunge included). Then pages() on the new machine must work (no Go panic).
//zz:workers=8
func ZZ_C33_machine() {
	m := IntegratedPVMMap{}
	// taken indices: none, {0}, {0,1}, {1} (0 was expunged), {0,2} (1 was expunged)
	layout := [][]uint64{{}, {0}, {0, 1}, {1}, {0, 2}}[zzvt.Range("existingMachines", 0, 4)]
	for _, i := range layout {
		m[i] = zzInner(zzTrapBlob, 0)
	}
	existing := len(layout)
	free := uint64(0) // the smallest index not taken
	for {
		if _, taken := m[free]; !taken {
			break
		}
		free++
	}
	in, regs, gas := zzRefineInput(m)
	valid := zzvt.Bool("validBlob")
	blob := zzTrapBlob
	if !valid {
		blob = []byte{0, 0, 9, 0, 1} // declares nine code bytes, carries one
	}
	addr, readable, _ := zzAddrClass("programAddr")
	if readable && addr == zzGuestBase+8 {
		copy(in.VM.Memory.Pages[16].Value[8:], blob)
	} else if readable {
		copy(in.VM.Memory.Pages[17].Value, blob)
	}
	regs[7], regs[8] = addr, uint64(len(blob))
	pc := regs[9]
	var out OmegaOutput
	zzvt.Assert(!zzvt.Try(func() { out = machine(in) }), "machine-no-go-panic")
	zzvt.Assert(*gas == 990, "machine-charges-ten")
	nm := out.Addition.IntegratedPVMMap
	switch {
	case !readable:
		zzvt.Assert(out.ExitReason == ExitPanic, "unreadable-program-panics")
		zzvt.Assert(len(nm) == existing, "panic-leaves-machines-unchanged")
	case !valid:
		zzvt.Assert(out.ExitReason == ExitContinue && regs[7] == HUH, "invalid-blob-is-HUH")
		zzvt.Assert(len(nm) == existing, "HUH-leaves-machines-unchanged")
	default:
		zzvt.Assert(out.ExitReason == ExitContinue, "machine-continues")
		zzvt.Assert(regs[7] == free, "smallest-unused-index")
		zzvt.Assert(len(nm) == existing+1, "one-machine-added")
		nw, ok := nm[free]
		zzvt.Assert(ok, "new-machine-stored")
		if !ok {
			return
		}
		zzvt.Assert(zzvt.EqBytes(nw.ProgramCode, blob), "new-machine-program")
		zzvt.Assert(uint64(nw.PC) == uint64(uint32(pc)), "new-machine-counter")
		for _, pg := range nw.Memory.Pages {
			zzvt.Assert(pg.Access == MemoryInaccessible, "new-machine-memory-inaccessible")
		}
		// the new machine is usable: make page 20 writable
		in2, regs2, _ := zzRefineInput(nm)
		regs2[7], regs2[8], regs2[9], regs2[10] = free, 20, 1, 2
		var out2 OmegaOutput
		zzvt.Assert(!zzvt.Try(func() { out2 = pages(in2) }), "pages-on-new-machine-no-go-panic")
		zzvt.Assert(out2.ExitReason == ExitContinue && regs2[7] == OK, "pages-on-new-machine-ok")
	}
}

// ZZ_C33_peek_poke: peek and poke between the guest and inner machine 1 for every
// combination of {writable, read-only, unmapped} outer and inner ranges, lengths 0..2 and a
// known/unknown machine: outcomes as specified (panic only for the outer range, WHO, OOB with
// continue for the inner range), exactly the requested bytes copied, nothing else changed.
//zz:workers=16 paths=20000
func ZZ_C33_peek_poke() {
	m := IntegratedPVMMap{1: zzInner(zzTrapBlob, 0)}
	in, regs, _ := zzRefineInput(m)
	n := uint64(zzvt.Range("machineIndex", 1, 2)) // 2 is unknown
	outer, oR, oW := zzAddrClass("outerAddr")
	inner, iR, iW := zzAddrClass("innerAddr")
	z := zzvt.Range("length", 0, 2)
	isPeek := zzvt.Bool("peek")
	guestBefore, innerBefore := zzGuestSnap(in.VM.Memory), zzGuestSnap(&mem1(m).Memory)
	var out OmegaOutput
	var panicked bool
	if isPeek {
		regs[7], regs[8], regs[9], regs[10] = n, outer, inner, uint64(z)
		panicked = zzvt.Try(func() { out = peek(in) })
	} else {
		regs[7], regs[8], regs[9], regs[10] = n, outer, inner, uint64(z)
		panicked = zzvt.Try(func() { out = poke(in) })
	}
	zzvt.Assert(!panicked, "peek-poke-no-go-panic")
	if panicked {
		return
	}
	outerOK, innerOK := oW, iR // peek writes the guest and reads the machine
	if !isPeek {
		outerOK, innerOK = oR, iW
	}
	if z == 0 {
		outerOK, innerOK = true, true
	}
	copied := false
	switch {
	case !outerOK:
		zzvt.Assert(out.ExitReason == ExitPanic, "outer-range-violation-panics")
	case n != 1:
		zzvt.Assert(out.ExitReason == ExitContinue && regs[7] == WHO, "unknown-machine-is-WHO")
	case !innerOK:
		zzvt.Assert(out.ExitReason == ExitContinue && regs[7] == OOB, "inner-range-violation-is-OOB-and-continues")
	default:
		zzvt.Assert(out.ExitReason == ExitContinue && regs[7] == OK, "copy-succeeds")
		copied = true
	}
	// memory effects
	for p, before := range guestBefore {
		want := append([]byte(nil), before...)
		if copied && isPeek && uint32(outer/ZP) == p {
			copy(want[outer%ZP:], innerBefore[uint32(inner/ZP)][inner%ZP:inner%ZP+uint64(z)])
		}
		zzvt.Assert(zzvt.EqBytes(in.VM.Memory.Pages[p].Value, want), "guest-memory-effect-exact")
	}
	for p, before := range innerBefore {
		want := append([]byte(nil), before...)
		if copied && !isPeek && uint32(inner/ZP) == p {
			copy(want[inner%ZP:], guestBefore[uint32(outer/ZP)][outer%ZP:outer%ZP+uint64(z)])
		}
		zzvt.Assert(zzvt.EqBytes(mem1(out.Addition.IntegratedPVMMap).Memory.Pages[p].Value, want), "inner-memory-effect-exact")
	}
}

func mem1(m IntegratedPVMMap) *IntegratedPVMType {
	x := m[1]
	return &x
}

// ZZ_C33_pages: pages(n, p, c, r) on machine 1 (pages 16 read-write with data, 17 read-only)
// for p in {15, 16, 17, 18, 2^20-1}, c in {0, 1, 2}, r in 0..5 and a known/unknown machine:
// WHO / HUH as specified (r > 4, p < 16, p + c >= 2^20, r > 2 on an inaccessible page);
// otherwise exactly the pages p..p+c-1 get the requested access (0 = inaccessible), their
// contents are zeroed for r < 3 and kept for r >= 3, every other page is untouched.
//zz:workers=16 paths=20000
func ZZ_C33_pages() {
	m := IntegratedPVMMap{1: zzInner(zzTrapBlob, 0)}
	in, regs, _ := zzRefineInput(m)
	n := uint64(zzvt.Range("machineIndex", 1, 2))
	p := []uint64{15, 16, 17, 18, 1<<20 - 1}[zzvt.Range("firstPage", 0, 4)]
	c := uint64(zzvt.Range("count", 0, 2))
	r := uint64(zzvt.Range("mode", 0, 5))
	before := map[uint32]Page{}
	for k, pg := range m[1].Memory.Pages {
		before[k] = Page{Value: append([]byte(nil), pg.Value...), Access: pg.Access}
	}
	regs[7], regs[8], regs[9], regs[10] = n, p, c, r
	var out OmegaOutput
	zzvt.Assert(!zzvt.Try(func() { out = pages(in) }), "pages-no-go-panic")
	zzvt.Assert(out.ExitReason == ExitContinue, "pages-continues")
	accessible := func(k uint64) bool {
		pg, ok := before[uint32(k)]
		return ok && pg.Access != MemoryInaccessible
	}
	huh := r > 4 || p < 16 || p+c >= 1<<20
	if !huh && r > 2 {
		for k := p; k < p+c; k++ {
			if !accessible(k) {
				huh = true
			}
		}
	}
	after := out.Addition.IntegratedPVMMap[1].Memory.Pages
	changed := false
	switch {
	case n != 1:
		zzvt.Assert(regs[7] == WHO, "unknown-machine-is-WHO")
	case huh:
		zzvt.Assert(regs[7] == HUH, "invalid-request-is-HUH")
	default:
		zzvt.Assert(regs[7] == OK, "pages-ok")
		changed = true
	}
	wantAccess := map[uint64]MemoryAccess{0: MemoryInaccessible, 1: MemoryReadOnly, 2: MemoryReadWrite, 3: MemoryReadOnly, 4: MemoryReadWrite}[r]
	for k := uint64(14); k < 21; k++ {
		b, had := before[uint32(k)]
		a, has := after[uint32(k)]
		inRange := changed && k >= p && k < p+c
		if !inRange {
			zzvt.Assert(had == has, "page-outside-the-range-untouched")
			if had && has {
				zzvt.Assert(a.Access == b.Access && zzvt.EqBytes(a.Value, b.Value), "page-outside-the-range-untouched")
			}
			continue
		}
		gotAccess := MemoryInaccessible
		if has {
			gotAccess = a.Access
		}
		zzvt.Assert(gotAccess == wantAccess, "page-in-range-gets-requested-access")
		if has && gotAccess != MemoryInaccessible {
			want := make([]byte, ZP)
			if r >= 3 && had {
				want = b.Value
			}
			zzvt.Assert(zzvt.EqBytes(a.Value, want), "page-in-range-contents")
		}
	}
}

// ZZ_C33_expunge: expunge(n) returns the machine's counter and removes exactly that machine;
// an unknown index is WHO and changes nothing.
//zz:workers=4
func ZZ_C33_expunge() {
	m := IntegratedPVMMap{0: zzInner(zzTrapBlob, 0), 1: zzInner(zzTrapBlob, uint64(zzvt.U32("pc")))}
	wantPC := uint64(m[1].PC)
	in, regs, _ := zzRefineInput(m)
	n := uint64(zzvt.Range("machineIndex", 1, 2))
	regs[7] = n
	out := expunge(in)
	zzvt.Assert(out.ExitReason == ExitContinue, "expunge-continues")
	nm := out.Addition.IntegratedPVMMap
	_, has0 := nm[0]
	_, has1 := nm[1]
	zzvt.Assert(has0, "other-machine-kept")
	if n == 1 {
		zzvt.Assert(regs[7] == wantPC, "expunge-returns-counter")
		zzvt.Assert(!has1 && len(nm) == 1, "machine-removed")
	} else {
		zzvt.Assert(regs[7] == WHO, "unknown-machine-is-WHO")
		zzvt.Assert(has1 && len(nm) == 2, "nothing-removed")
	}
}

// zzLE64 is E8.
func zzLE64(v uint64) []byte { return zzLE(v, 8) }

// ZZ_C33_invoke: invoke(n, o) with the gas/register block at a writable / non-writable guest
// address, a known/unknown machine, and an inner program that is one of: trap; ecalli 7; load_imm r3 = 0x55 then trap; a store to an unmapped inner address (page fault); a
// two-instruction program run with gas 1 (out of gas). The block read back holds the remaining
// gas and the inner registers, registers 7/8 carry the exit kind and its argument, the inner
// machine keeps its updated counter, and the outer memory is touched only in the block.
//zz:workers=16 paths=20000
func ZZ_C33_invoke() {
	type prog struct {
		code, mask []byte
		gas        uint64
		kind       uint64
		arg        uint64 // register 8 for host / fault
		r3         uint64
		used       uint64
	}
	progs := []prog{
		{[]byte{0}, []byte{1}, 10, INNERPANIC, 0, 0, 1},                                  // trap
		{[]byte{10, 7, 0}, []byte{0x05}, 10, INNERHOST, 7, 0, 1},                               // ecalli 7
		{[]byte{51, 3, 0x55, 0}, []byte{0x09}, 10, INNERPANIC, 0, 0x55, 2},               // load_imm r3, 0x55; trap
		{[]byte{30, 3, 0x00, 0x00, 0x05, 1, 0}, []byte{0x41}, 10, INNERFAULT, 0x50000, 0, 1},     // store_imm_u8 [0x50000] = 1: page fault
		{[]byte{51, 3, 0x55, 0}, []byte{0x09}, 1, INNEROOG, 0, 0x55, 1},                  // second instruction has no gas left
	}
	pr := progs[zzvt.Range("program", 0, len(progs)-1)]
	blob := append([]byte{0, 0, byte(len(pr.code))}, pr.code...)
	blob = append(blob, pr.mask...)
	m := IntegratedPVMMap{1: zzInner(blob, 0)}
	in, regs, _ := zzRefineInput(m)
	n := uint64(zzvt.Range("machineIndex", 1, 2))
	addr, _, writable := zzAddrClass("blockAddr")
	var w Registers
	for i := range w {
		w[i] = zzvt.U64("innerReg")
	}
	if writable {
		blk := zzLE64(pr.gas)
		for _, x := range w {
			blk = append(blk, zzLE64(x)...)
		}
		copy(in.VM.Memory.Pages[16].Value[8:], blk)
	}
	regs[7], regs[8] = n, addr
	before := zzGuestSnap(in.VM.Memory)
	var out OmegaOutput
	zzvt.Assert(!zzvt.Try(func() { out = invoke(in) }), "invoke-no-go-panic")
	switch {
	case !writable:
		zzvt.Assert(out.ExitReason == ExitPanic, "non-writable-block-panics")
		return
	case n != 1:
		zzvt.Assert(out.ExitReason == ExitContinue && regs[7] == WHO, "unknown-machine-is-WHO")
		return
	}
	zzvt.Assert(out.ExitReason == ExitContinue, "invoke-continues")
	zzvt.Assert(regs[7] == pr.kind, "exit-kind-reported")
	if pr.kind == INNERHOST || pr.kind == INNERFAULT {
		zzvt.Assert(regs[8] == pr.arg, "exit-argument-reported")
	}
	got := zzPageBytes(in.VM.Memory, addr, 112)
	wantW := w
	if pr.r3 != 0 {
		wantW[3] = pr.r3
	}
	want := zzLE64(pr.gas - pr.used)
	for _, x := range wantW {
		want = append(want, zzLE64(x)...)
	}
	zzvt.Assert(zzvt.EqBytes(got, want), "gas-and-registers-written-back")
	for p, b := range before {
		want := append([]byte(nil), b...)
		if p == 16 {
			copy(want[8:8+112], in.VM.Memory.Pages[p].Value[8:8+112])
		}
		zzvt.Assert(zzvt.EqBytes(in.VM.Memory.Pages[p].Value, want), "outer-memory-outside-the-block-untouched")
	}
	if pr.kind == INNERHOST {
		zzvt.Assert(uint64(out.Addition.IntegratedPVMMap[1].PC) == 2, "counter-after-host-call-is-next-instruction")
	}
}
