package PVM

import "github.com/New-JAMneration/JAM-Protocol/internal/zzvt"

// ---- guest memory model for the harnesses -------------------------------------------------
// Pages 16 and 17 (addresses 0x10000..0x11fff; page 16 is the first one above the 2^16
// panic zone) are each absent, read-only or read-write (symbolic choice); page 18 is never
// mapped. Page contents are symbolic in the 8 bytes on either side of every page boundary and
// zero elsewhere. Addresses are drawn from the classes that matter for protection: inside the
// panic zone, at/around the 16|17 boundary (crossing between two mapped pages), around the
// 17|18 boundary (crossing into an unmapped page), and wrapping past 2^32.

const (
	zzAbsent = 0
	zzRO     = 1
	zzRW     = 2
)

type zzMemModel struct {
	mem   *Memory
	state [3]int // pages 16, 17, 18 (18 always absent)
}

func zzNewPage(access MemoryAccess, name string) *Page {
	v := make([]byte, ZP)
	zzvt.FillBytes(name, v[:8])
	zzvt.FillBytes(name, v[ZP-8:])
	return &Page{Value: v, Access: access}
}

func zzMemory() *zzMemModel {
	m := &zzMemModel{mem: &Memory{Pages: map[uint32]*Page{}}}
	for i := 0; i < 2; i++ {
		st := zzvt.Range("pageState", 0, 2)
		m.state[i] = st
		switch st {
		case zzRO:
			m.mem.Pages[uint32(16+i)] = zzNewPage(MemoryReadOnly, "page")
		case zzRW:
			m.mem.Pages[uint32(16+i)] = zzNewPage(MemoryReadWrite, "page")
		}
	}
	return m
}

// pageState of the page containing addr (absent outside pages 16..17).
func (m *zzMemModel) pageState(addr uint32) int {
	p := addr / ZP
	if p == 16 || p == 17 {
		return m.state[p-16]
	}
	return zzAbsent
}

func (m *zzMemModel) byteAt(addr uint32) byte {
	return m.mem.Pages[addr/ZP].Value[addr%ZP]
}

type zzMemSnap map[uint32][]byte

func (m *zzMemModel) snapshot() zzMemSnap {
	s := zzMemSnap{}
	for p, pg := range m.mem.Pages {
		s[p] = append([]byte(nil), pg.Value...)
	}
	return s
}

// unchangedExcept asserts that memory equals the snapshot outside [lo, lo+n).
func (m *zzMemModel) unchangedExcept(s zzMemSnap, lo uint32, n int, label string) {
	zzvt.Assert(len(m.mem.Pages) == len(s), label)
	for p, old := range s {
		pg, ok := m.mem.Pages[p]
		if !ok {
			zzvt.Assert(false, label)
			continue
		}
		// only the symbolic/edge regions can differ from the snapshot in a way a store of <= 8
		// bytes near a boundary could cause; compare the 16 bytes at both ends and a middle probe
		for _, off := range []uint32{0, 1, 2, 3, 4, 5, 6, 7, 8, 2048, ZP - 9, ZP - 8, ZP - 7, ZP - 6, ZP - 5, ZP - 4, ZP - 3, ZP - 2, ZP - 1} {
			a := p*ZP + off
			if n > 0 && a-lo < uint32(n) {
				continue
			}
			zzvt.Assert(pg.Value[off] == old[off], label)
		}
	}
}

var zzAddrClasses = func() []uint32 {
	var out []uint32
	out = append(out, 0, 0xFFF8, 0xFFFF) // panic zone (the last one reaches into page 16)
	for d := uint32(0); d <= 8; d++ {
		out = append(out, 17*ZP-d) // around the 16|17 boundary
		out = append(out, 18*ZP-d) // around the 17|18 boundary (18 is unmapped)
	}
	out = append(out, 16*ZP, 16*ZP+5, 18*ZP, 0x7FFFF000, 0xFFFFFFF9, 0xFFFFFFFF)
	return out
}()

func zzAddr() uint32 { return zzAddrClasses[zzvt.Range("addrClass", 0, len(zzAddrClasses)-1)] }

// zzAccessOutcome is B.4 for an access of n bytes at a: 0 = ok, 1 = panic, 2 = page fault.
func (m *zzMemModel) accessOutcome(a uint32, n int, write bool) int {
	if a < 1<<16 {
		return 1
	}
	for i := 0; i < n; i++ {
		st := m.pageState(a + uint32(i)) // wraps mod 2^32 like the address space
		if st == zzAbsent || (write && st != zzRW) {
			return 2
		}
	}
	return 0
}

// ZZ_C05_load: every load instruction width (1, 2, 4, 8 bytes; opcodes 52, 54, 56, 58) on the
// memory model: the value is returned only if every touched page is readable, an access that
// starts below 2^16 panics, otherwise a page fault is reported at an address between the
// start of the first touched page and the end of the access; on any fault the destination
// register and memory are untouched.
//zz:workers=16 paths=100000
func ZZ_C05_load() {
	n := 1 << uint(zzvt.Range("widthLog", 0, 3))
	op := map[int]byte{1: 52, 2: 54, 4: 56, 8: 58}[n]
	mm := zzMemory()
	a := zzAddr()
	regs := zzSymRegs()
	in := &Interpreter{Registers: regs, Gas: 9, Memory: mm.mem}
	rd := uint8(zzvt.Range("rd", 0, 12))
	m := &InstrMeta{PC: 3, Opcode: op, SkipLen: 5, Dst: rd, Src: [2]uint8{rd, 0xFF}, Imm: [2]uint64{uint64(a), 0}, Exec: instrMetaExecForOpcode(op)}
	snap := mm.snapshot()
	exit, npc := m.Exec(in, m)
	zzvt.Assert(npc == m.PC, "pc-unchanged-by-handler")
	mm.unchangedExcept(snap, 0, 0, "load-does-not-modify-memory")
	switch mm.accessOutcome(a, n, false) {
	case 0:
		zzvt.Assert(exit == ExitContinue, "readable-access-succeeds")
		var want uint64
		for i := 0; i < n; i++ {
			want |= uint64(mm.byteAt(a+uint32(i))) << (8 * uint(i))
		}
		zzvt.Assert(in.Registers[rd] == want, "loaded-value-little-endian")
		zzCheckFrame(in, regs, 9, rd)
	case 1:
		zzvt.Assert(exit == ExitPanic, "access-below-2^16-panics")
		zzCheckFrame(in, regs, 9, 0xFF)
	case 2:
		zzvt.Assert(exit.GetReasonType() == PAGE_FAULT, "unreadable-page-faults")
		f := exit.GetPageFaultAddress()
		zzvt.Assert(f >= (a/ZP)*ZP && uint64(f) <= uint64(a)+uint64(n)-1, "fault-address-within-access")
		zzCheckFrame(in, regs, 9, 0xFF)
	}
}

// ZZ_C05_store: every store width (opcodes 59..62): memory is written only if every touched
// page is writable, and then exactly the n bytes; otherwise panic (below 2^16) or page fault,
// with memory and registers untouched (no partial write across a page boundary).
//zz:workers=16 paths=100000
func ZZ_C05_store() {
	n := 1 << uint(zzvt.Range("widthLog", 0, 3))
	op := map[int]byte{1: 59, 2: 60, 4: 61, 8: 62}[n]
	mm := zzMemory()
	a := zzAddr()
	regs := zzSymRegs()
	in := &Interpreter{Registers: regs, Gas: 9, Memory: mm.mem}
	ra := uint8(zzvt.Range("ra", 0, 12))
	m := &InstrMeta{PC: 3, Opcode: op, SkipLen: 5, Dst: ra, Src: [2]uint8{ra, 0xFF}, Imm: [2]uint64{uint64(a), 0}, Exec: instrMetaExecForOpcode(op)}
	snap := mm.snapshot()
	val := regs[ra]
	exit, npc := m.Exec(in, m)
	zzvt.Assert(npc == m.PC, "pc-unchanged-by-handler")
	zzCheckFrame(in, regs, 9, 0xFF)
	switch mm.accessOutcome(a, n, true) {
	case 0:
		zzvt.Assert(exit == ExitContinue, "writable-access-succeeds")
		for i := 0; i < n; i++ {
			zzvt.Assert(mm.byteAt(a+uint32(i)) == byte(val>>(8*uint(i))), "stored-bytes-little-endian")
		}
		mm.unchangedExcept(snap, a, n, "store-touches-only-its-range")
	case 1:
		zzvt.Assert(exit == ExitPanic, "access-below-2^16-panics")
		mm.unchangedExcept(snap, 0, 0, "failed-store-writes-nothing")
	case 2:
		zzvt.Assert(exit.GetReasonType() == PAGE_FAULT, "unwritable-page-faults")
		f := exit.GetPageFaultAddress()
		zzvt.Assert(f >= (a/ZP)*ZP && uint64(f) <= uint64(a)+uint64(n)-1, "fault-address-within-access")
		mm.unchangedExcept(snap, 0, 0, "failed-store-writes-nothing")
	}
}

// ZZ_C05_sbrk: sbrk (opcode 101) from heap states around page boundaries, every 64-bit request:
// the result is the old pointer for a zero request, 0 (and no change) when the request wraps or
// would pass the heap limit, otherwise old+request; the pointer never exceeds the limit; every
// page of the newly exposed range is writable; newly created pages read as zero and existing
// pages keep their contents.
//zz:workers=16
func ZZ_C05_sbrk() {
	base := uint64(0x20000)
	hp := base + []uint64{0, 1, ZP - 1, ZP, ZP + 7}[zzvt.Range("heapPointerSel", 0, 4)]
	limit := hp + []uint64{0, 1, ZP, 2*ZP + 5}[zzvt.Range("limitSel", 0, 3)]
	mem := &Memory{Pages: map[uint32]*Page{}, heapPointer: hp, heapLimit: limit}
	// the page holding the current break (and the one below) exist and carry data
	existing := map[uint32]byte{}
	for p := uint32(base / ZP); uint64(p)*ZP < hp || p == uint32(base/ZP); p++ {
		pg := &Page{Value: make([]byte, ZP), Access: MemoryReadWrite}
		pg.Value[17] = zzvt.U8("heapData")
		existing[p] = pg.Value[17]
		mem.Pages[p] = pg
	}
	regs := zzSymRegs()
	in := &Interpreter{Registers: regs, Gas: 4, Memory: mem}
	rd, ra := uint8(7), uint8(8)
	if zzvt.Bool("aliased") {
		ra = 7
	}
	req := regs[ra]
	m := &InstrMeta{PC: 0, Opcode: 101, SkipLen: 1, Dst: rd, Src: [2]uint8{ra, 0xFF}, Exec: instrMetaExecForOpcode(101)}
	npages := len(mem.Pages)
	exit, _ := m.Exec(in, m)
	zzvt.Assert(exit == ExitContinue, "sbrk-continues")
	zzCheckFrame(in, regs, 4, rd)
	zzvt.Assert(mem.heapPointer <= mem.heapLimit && mem.heapLimit == limit, "heap-never-passes-the-limit")
	for p, b := range existing {
		pg, ok := mem.Pages[p]
		zzvt.Assert(ok && pg.Value[17] == b, "existing-pages-keep-their-contents")
	}
	sum := hp + req
	switch {
	case req == 0:
		zzvt.Assert(in.Registers[rd] == hp && mem.heapPointer == hp && len(mem.Pages) == npages, "zero-request-returns-current-break")
	case sum < hp || sum > limit:
		zzvt.Assert(in.Registers[rd] == 0, "refused-request-returns-0")
		zzvt.Assert(mem.heapPointer == hp && len(mem.Pages) == npages, "refused-request-changes-nothing")
	default:
		zzvt.Assert(in.Registers[rd] == sum && mem.heapPointer == sum, "break-advances-by-request")
		for p := uint32(hp / ZP); uint64(p)*ZP < sum; p++ {
			pg, ok := mem.Pages[p]
			zzvt.Assert(ok && pg.Access == MemoryReadWrite && len(pg.Value) == ZP, "exposed-range-is-writable")
			if ok {
				if _, was := existing[p]; !was {
					zero := true
					for _, off := range []int{0, 1, 17, 2048, ZP - 1} {
						zero = zero && pg.Value[off] == 0
					}
					zzvt.Assert(zero, "new-pages-read-as-zero")
				}
			}
		}
	}
}

// ZZ_C05_ranges: the range predicates used by every host call (isReadable / isWriteable) on
// the memory model: a range is readable iff every page it touches is mapped, writable iff every
// page is read-write, empty ranges always are, and ranges that pass 2^32 never are.
// Ranges: start from the address classes, lengths 0, 1, 8, 9, 4096, 4097.
//zz:workers=16
func ZZ_C05_ranges() {
	mm := zzMemory()
	a := zzAddr()
	n := []uint64{0, 1, 8, 9, ZP, ZP + 1, 1<<32 + 1, 1<<63 + 5}[zzvt.Range("lenSel", 0, 7)]
	r := isReadable(uint64(a), n, *mm.mem)
	w := isWriteable(uint64(a), n, *mm.mem)
	wantR, wantW := true, true
	if n > 0 {
		if uint64(a)+n > 1<<32 || n > 1<<32 {
			wantR, wantW = false, false
		} else {
			for p := a / ZP; uint64(p)*ZP < uint64(a)+n; p++ {
				st := mm.pageState(p * ZP)
				if st == zzAbsent {
					wantR = false
				}
				if st != zzRW {
					wantW = false
				}
			}
		}
	}
	zzvt.Assert(r == wantR, "readable-iff-every-page-mapped")
	zzvt.Assert(w == wantW, "writable-iff-every-page-read-write")
}
