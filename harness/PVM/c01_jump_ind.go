package PVM

import "github.com/New-JAMneration/JAM-Protocol/internal/zzvt"

// ---- two registers and two immediates (A.5.12): load_imm_jump_ind ----------------------

func zzStepLoadImmJumpInd(single bool, tails []int) {
	pc := 1
	n := pc + tails[zzvt.Range("tail", 0, len(tails)-1)]
	op := byte(180)
	w := zzWindow(n, pc, op)
	regs := zzSymRegs()
	in := w.interp(regs, 5)
	ra, rb := zzMin12(w.z(pc+1)%16), zzMin12(w.z(pc+1)>>4)
	lx := int(w.z(pc+2) % 8)
	if lx > 4 {
		lx = 4
	}
	ly := zzClampLen(int(w.ell) - lx - 2)
	vx, vy := w.imm(pc+3, lx), w.imm(pc+3+lx, ly)
	b := regs[rb] // read before the write, also when the two registers coincide
	target := uint32(b + vy)
	var exit ExitReason
	var npc ProgramCounter
	zzvt.Assert(!zzvt.Try(func() { exit, npc = w.run(in, single) }), "no-go-panic")
	// empty jump table: the only dynamic jump that does not panic is the halt address
	if target == 0xffff0000 {
		zzvt.Assert(exit == ExitHalt, "halt-address-halts")
	} else {
		zzvt.Assert(exit == ExitPanic, "invalid-dynamic-jump-panics")
	}
	zzvt.Assert(npc == ProgramCounter(pc), "pc-unchanged-by-handler")
	zzvt.Assert(in.Registers[ra] == vx, "register-A-loaded-with-immediate")
	zzCheckFrame(in, regs, 5, ra)
}

// ZZ_C01_step_load_imm_jump_ind: opcode 180 end to end from symbolic code bytes with the block
// engine: register and immediate decoding (l_X = min(4, ζ[ı+2] mod 8), l_Y = min(4, max(0,
// ℓ - l_X - 2))), the jump address taken from register B *before* register A is written (the
// two may coincide), halt exactly at 2^32 - 2^16 and panic otherwise (empty jump table), every
// skip length. Bound: 3 or 12 bytes from the opcode to the end of the code.
//zz:workers=8
func ZZ_C01_step_load_imm_jump_ind() { zzStepLoadImmJumpInd(false, []int{3, 12}) }

// ZZ_C02_step_load_imm_jump_ind: the same through the single-step engine (3 or 7 bytes to the
// end of the code; the long operand windows are decoded by code shared with the block engine).
//zz:workers=8
func ZZ_C02_step_load_imm_jump_ind() { zzStepLoadImmJumpInd(true, []int{3, 7}) }

// ZZ_C02_diff_formats: the two engines side by side. One instruction of a representative
// opcode per operand format with immediates or offsets (one immediate, extended immediate, two
// immediates, one offset, register+immediate, register+two immediates,
// register+immediate+offset, two registers+immediate, two registers+offset, two registers+two
// immediates; the register-only formats have their own step harnesses) decoded from arbitrary operand bytes with every skip length, executed by
// the pre-decoded engine and by the single-step engine from the same arbitrary registers on
// an empty memory: same exit reason (with its argument), same next counter, same registers,
// same gas. Bound: 7 bytes from the opcode to the end of the code.
//zz:workers=16 paths=60000 conccap=260
func ZZ_C02_diff_formats() { zzDiffFormats([]byte{30, 40, 70, 80, 170, 180}) }

// ZZ_C02_diff_formats_all: the same for the remaining formats with immediates (ecalli,
// load_imm_64, load_imm, two registers + immediate), which the quick tier covers through the
// per-format step harnesses.
//zz:tier=thorough workers=16 paths=60000 conccap=260
func ZZ_C02_diff_formats_all() { zzDiffFormats([]byte{10, 20, 51, 120}) }

func zzDiffFormats(ops []byte) {
	op := ops[zzvt.Range("format", 0, len(ops)-1)]
	pc := 1
	w := zzWindow(pc+7, pc, op)
	if op == 40 || op == 80 || op == 170 {
		// static branches look at the opcode stored at their target: keep the bytes behind the
		// first five operand bytes concrete (trap), so that only targets inside the operands
		// read an arbitrary byte
		for i := pc + 6; i < w.n; i++ {
			w.code[i] = 0
		}
	}
	regs := zzSymRegs()
	a, b := w.interp(regs, 5), w.interp(regs, 5)
	var ea, eb ExitReason
	var pa, pb ProgramCounter
	zzvt.Assert(!zzvt.Try(func() { ea, pa = w.run(a, false) }), "block-engine-no-go-panic")
	zzvt.Assert(!zzvt.Try(func() { eb, pb = w.run(b, true) }), "single-step-engine-no-go-panic")
	zzvt.Assert(ea == eb, "same-exit-reason")
	zzvt.Assert(pa == pb, "same-next-counter")
	zzvt.Assert(a.Registers == b.Registers, "same-registers")
	zzvt.Assert(a.Gas == b.Gas, "same-gas")
}

// ZZ_C02_diff_two_reg_imm: every two-registers-and-one-immediate handler (opcodes 120..161)
// in both engines on the same instruction bytes (registers byte and a four-byte immediate, all
// arbitrary) and the same arbitrary registers: same exit, counter, registers and gas. (The
// per-opcode results against appendix A are the C01 harnesses; this is the agreement of the
// two engines for the whole format.)
//zz:workers=16 paths=60000 conccap=260
func ZZ_C02_diff_two_reg_imm() {
	op := byte(zzvt.Range("op", 120, 161))
	pc := 1
	w := zzWindowB(pc+6, pc, op, false)
	regs := zzSymRegs()
	a, b := w.interp(regs, 5), w.interp(regs, 5)
	var ea, eb ExitReason
	var pa, pb ProgramCounter
	zzvt.Assert(!zzvt.Try(func() { ea, pa = w.run(a, false) }), "block-engine-no-go-panic")
	zzvt.Assert(!zzvt.Try(func() { eb, pb = w.run(b, true) }), "single-step-engine-no-go-panic")
	zzvt.Assert(ea == eb, "same-exit-reason")
	zzvt.Assert(pa == pb, "same-next-counter")
	zzvt.Assert(a.Registers == b.Registers, "same-registers")
	zzvt.Assert(a.Gas == b.Gas, "same-gas")
}

// zzDiffOps: one instruction of opcode lo..hi (except `skipOp`), followed by `tail` arbitrary
// operand bytes, in both engines from the same arbitrary registers.
func zzDiffOps(lo, hi, tail int, skipOp byte) {
	op := byte(zzvt.Range("op", lo, hi))
	zzvt.Assume(op != skipOp)
	pc := 1
	w := zzWindowB(pc+1+tail, pc, op, false)
	regs := zzSymRegs()
	a, b := w.interp(regs, 5), w.interp(regs, 5)
	var ea, eb ExitReason
	var pa, pb ProgramCounter
	zzvt.Assert(!zzvt.Try(func() { ea, pa = w.run(a, false) }), "block-engine-no-go-panic")
	zzvt.Assert(!zzvt.Try(func() { eb, pb = w.run(b, true) }), "single-step-engine-no-go-panic")
	zzvt.Assert(ea == eb, "same-exit-reason")
	zzvt.Assert(pa == pb, "same-next-counter")
	zzvt.Assert(a.Registers == b.Registers, "same-registers")
	zzvt.Assert(a.Gas == b.Gas, "same-gas")
}

// ZZ_C02_diff_three_reg: every three-register handler (opcodes 190..230) in both engines on the
// same arbitrary register bytes and registers.
//zz:workers=16 paths=60000 conccap=260
func ZZ_C02_diff_three_reg() { zzDiffOps(190, 230, 2, 0) }

// ZZ_C02_diff_two_reg: every two-register handler (opcodes 100..111, sbrk excepted: C05) in both
// engines.
//zz:workers=8 conccap=260
func ZZ_C02_diff_two_reg() { zzDiffOps(100, 111, 1, 101) }

// The C01 exec harnesses decide the pre-decoded handlers against appendix A for every operand
// value; the machine of C01 is also run by the single-step engine (inner machines), whose
// handlers are a second copy of the arithmetic. These aliases make the agreement of the two
// copies, for every opcode of the register formats, part of C01.
//zz:workers=16 paths=60000 conccap=260
func ZZ_C01_single_step_two_reg_imm() { ZZ_C02_diff_two_reg_imm() }

//zz:workers=16 paths=60000 conccap=260
func ZZ_C01_single_step_three_reg() { ZZ_C02_diff_three_reg() }

//zz:workers=8 conccap=260
func ZZ_C01_single_step_two_reg() { ZZ_C02_diff_two_reg() }
