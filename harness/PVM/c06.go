package PVM

import "github.com/New-JAMneration/JAM-Protocol/internal/zzvt"

// zzSection: n bytes, zero except an arbitrary first and last byte.
func zzSection(tag string, n int) []byte {
	b := make([]byte, n)
	if n > 0 {
		b[0] = zzvt.U8(tag + "First")
		b[n-1] = zzvt.U8(tag + "Last")
	}
	return b
}

func zzLE(v uint64, n int) []byte {
	out := make([]byte, n)
	for i := range out {
		out[i] = byte(v >> (8 * uint(i)))
	}
	return out
}

// zzBlob is E3(|o|) E3(|w|) E2(z) E3(s) o w E4(|c|) c.
func zzBlob(o, w []byte, z, s int, c []byte) []byte {
	var p []byte
	p = append(p, zzLE(uint64(len(o)), 3)...)
	p = append(p, zzLE(uint64(len(w)), 3)...)
	p = append(p, zzLE(uint64(z), 2)...)
	p = append(p, zzLE(uint64(s), 3)...)
	p = append(p, o...)
	p = append(p, w...)
	p = append(p, zzLE(uint64(len(c)), 4)...)
	p = append(p, c...)
	return p
}

func zzP(x uint64) uint64 { return (x + ZP - 1) / ZP * ZP }
func zzZ(x uint64) uint64 { return (x + ZZ - 1) / ZZ * ZZ }

type zzZone struct {
	lo, hi  uint64 // [lo, hi) with lo page aligned
	content []byte // bytes at lo.., zero afterwards
	access  MemoryAccess
}

// zzCheckMap: mem is exactly the union of the zones (appendix A.41): every page of a zone
// exists with the zone's access and contents, and no other page exists.
func zzCheckMap(mem Memory, zones []zzZone) {
	pages := 0
	for zi, z := range zones {
		for addr := z.lo; addr < z.hi; addr += ZP {
			pages++
			pg, ok := mem.Pages[uint32(addr/ZP)]
			zzvt.Assert(ok, "zone-page-present")
			if !ok {
				continue
			}
			zzvt.Assert(pg.Access == z.access, "zone-page-access")
			zzvt.Assert(len(pg.Value) == int(ZP), "zone-page-size")
			if len(pg.Value) != int(ZP) {
				continue
			}
			off := int(addr - z.lo)
			want := make([]byte, ZP)
			if off < len(z.content) {
				copy(want, z.content[off:])
			}
			zzvt.Assert(zzvt.EqBytes(pg.Value, want), [4]string{"read-only-data-content", "read-write-data-content", "stack-zeroed", "argument-content"}[zi])
		}
	}
	zzvt.Assert(len(mem.Pages) == pages, "no-page-outside-the-zones")
}

func zzInitCheck(o, w []byte, z, s int, a []byte) {
	c := []byte{0, 0, 0} // j-length 0, z 0, |c| 0: an empty program body is enough here
	p := zzBlob(o, w, z, s, c)
	code, regs, mem, exit := SingleInitializer(p, a)
	zzvt.Assert(exit == ExitContinue, "well-formed-blob-accepted")
	if exit != ExitContinue {
		return
	}
	zzvt.Assert(zzvt.EqBytes(code, c), "program-code-returned")
	ol, wl := uint64(len(o)), uint64(len(w))
	rw := 2*ZZ + zzZ(ol)
	stackEnd := uint64(1<<32) - 2*ZZ - ZI
	arg := uint64(1<<32) - ZZ - ZI
	zzCheckMap(mem, []zzZone{
		{ZZ, ZZ + zzP(ol), o, MemoryReadOnly},
		{rw, rw + zzP(wl) + uint64(z)*ZP, w, MemoryReadWrite},
		{stackEnd - zzP(uint64(s)), stackEnd, nil, MemoryReadWrite},
		{arg, arg + zzP(uint64(len(a))), a, MemoryReadOnly},
	})
	var want Registers
	want[0] = 1<<32 - 1<<16
	want[1] = stackEnd
	want[7] = arg
	want[8] = uint64(len(a))
	zzvt.Assert(regs == want, "initial-registers")
	zzvt.Assert(mem.heapPointer == rw+zzP(wl)+uint64(z)*ZP, "heap-pointer-after-read-write-zone")
}

var zzSizes = [8]int{0, 1, 4095, 4096, 4097, 8192, 65536, 65537}

// ZZ_C06_data: read-only and read-write sections of every size in {0, 1, 4095, 4096, 4097,
// 8192, 65536, 65537} with arbitrary first and last bytes, 0, 1, 2, 16 or 17 extra heap pages: the memory
// map and registers are exactly those of appendix A.
//zz:workers=16 paths=4000 steps=200000000
func ZZ_C06_data() {
	o := zzSection("o", zzSizes[zzvt.Range("oClass", 0, 7)])
	w := zzSection("w", zzSizes[zzvt.Range("wClass", 0, 7)])
	zzInitCheck(o, w, [5]int{0, 1, 2, 16, 17}[zzvt.Range("heapPages", 0, 4)], 4096, zzSection("a", 3))
}

// ZZ_C06_stack_args: stack sizes and argument lengths in the same size classes.
//zz:workers=16 paths=4000 steps=200000000
func ZZ_C06_stack_args() {
	s := zzSizes[zzvt.Range("sClass", 0, 7)]
	a := zzSection("a", zzSizes[zzvt.Range("aClass", 0, 7)])
	zzInitCheck(zzSection("o", 5), zzSection("w", 4097), 1, s, a)
}

// ZZ_C06_malformed: every truncation of a well-formed blob and every blob with trailing
// bytes is rejected (the blob must be exactly the serialisation); section lengths that
// exceed the data are rejected; nothing panics.
//zz:workers=8
func ZZ_C06_malformed() {
	o, w := zzSection("o", zzvt.Range("oLen", 0, 2)), zzSection("w", zzvt.Range("wLen", 0, 2))
	p := zzBlob(o, w, 1, 4096, []byte{0, 0, 0})
	switch zzvt.Range("kind", 0, 2) {
	case 0:
		p = p[:zzvt.Range("cut", 0, len(p)-1)]
	case 1:
		p = append(p, zzvt.U8("trailing"))
	case 2: // a declared length that exceeds the data
		field := zzvt.Range("field", 0, 1)
		p[3*field+2] = 0x7f
	}
	var exit ExitReason
	panicked := zzvt.Try(func() { _, _, _, exit = SingleInitializer(p, nil) })
	zzvt.Assert(!panicked, "malformed-blob-no-panic")
	if !panicked {
		zzvt.Assert(exit != ExitContinue, "malformed-blob-rejected")
	}
}
