package PVM

import (
	"github.com/New-JAMneration/JAM-Protocol/internal/types"
	"github.com/New-JAMneration/JAM-Protocol/internal/utilities/merklization"
	"github.com/New-JAMneration/JAM-Protocol/internal/zzvt"
)

// ---- host-call harness context -----------------------------------------------------------

const zzGuestBase = uint64(16 * ZP) // first mapped guest address

// zzGuestMem: page 16 read-write with 256 symbolic bytes at its start (input data: hashes,
// memos, keys), page 17 read-only, everything else unmapped.
func zzGuestMem() *Memory {
	p16 := &Page{Value: make([]byte, ZP), Access: MemoryReadWrite}
	zzvt.FillBytes("guest", p16.Value[:256])
	p17 := &Page{Value: make([]byte, ZP), Access: MemoryReadOnly}
	return &Memory{Pages: map[uint32]*Page{16: p16, 17: p17}}
}

func zzInfo(name string) types.ServiceInfo {
	return types.ServiceInfo{
		Balance:       types.U64(zzvt.U64(name + "Balance")),
		Items:         types.U32(zzvt.U32(name + "Items")),
		Bytes:         types.U64(zzvt.U64(name + "Bytes")),
		DepositOffset: types.U64(zzvt.U64(name + "Gratis")),
		MinItemGas:    types.Gas(zzvt.U64(name + "MinItemGas")),
		MinMemoGas:    types.Gas(zzvt.U64(name + "MinMemoGas")),
	}
}

func zzEmptyAccount(info types.ServiceInfo) types.ServiceAccount {
	return types.ServiceAccount{ServiceInfo: info, PreimageLookup: types.PreimagesMapEntry{}, LookupDict: types.LookupMetaMapEntry{}, StorageDict: types.Storage{}}
}

const (
	zzCaller    = types.ServiceID(70005)
	zzBystander = types.ServiceID(70009)
)

// zzAccumulateCtx mirrors the context set-up of Psi_A: X works on a deep copy of the partial
// state, Y keeps the original, GeneralArgs point into X's account map.
func zzAccumulateCtx(accounts types.ServiceAccountState) (HostCallArgs, *types.ServiceID) {
	sid := zzCaller
	ps := types.PartialStateSet{ServiceAccounts: accounts,
		Bless:      types.ServiceID(zzvt.U32("manager")),
		CreateAcct: types.ServiceID(zzvt.U32("registrar")),
		Designate:  types.ServiceID(zzvt.U32("designator")),
		Assign:     make(types.ServiceIDList, types.CoresCount),
	}
	if zzCallerAssigns {
		// the caller is the assigner of core 0 and the authorizer queues hold data
		ps.Assign[0] = sid
		ps.Authorizers = make(types.AuthQueues, types.CoresCount)
		for c := range ps.Authorizers {
			ps.Authorizers[c] = make(types.AuthQueue, types.AuthQueueSize)
			ps.Authorizers[c][0][0] = byte(0xA0 + c)
		}
	}
	kv := zzRawPool(sid)
	newPS := ps.DeepCopy()
	newKV := kv.DeepCopy()
	sa := newPS.ServiceAccounts[sid]
	// the next free identifier is fixed: its derivation (check/modular stepping) is not what
	// the host-call harnesses are about and symbolic modular arithmetic makes every query slow
	next := types.ServiceID(80000)
	mk := func(p types.PartialStateSet, k *types.StateKeyVals) ResultContext {
		return ResultContext{ServiceID: sid, PartialState: p, ImportServiceID: next, DeferredTransfers: []types.DeferredTransfer{},
			ServiceBlobs: map[types.OpaqueHash]types.ServiceBlob{}, StorageKeyVal: k}
	}
	args := HostCallArgs{
		GeneralArgs:    GeneralArgs{ServiceAccount: &sa, ServiceID: &sid, ServiceAccountState: &newPS.ServiceAccounts, StorageKeyVal: &newKV},
		AccumulateArgs: AccumulateArgs{ResultContextX: mk(newPS, &newKV), ResultContextY: mk(ps, &kv), Timeslot: types.TimeSlot(zzvt.U32("timeslot"))},
	}
	return args, &sid
}

// 128-bit accumulation without branches.
type zzU128 struct{ hi, lo uint64 }

func (a zzU128) add(x uint64) zzU128 {
	lo := a.lo + x
	return zzU128{a.hi + zzvt.Ite64(lo < a.lo, 1, 0), lo}
}

func (a zzU128) le(b zzU128) bool {
	return zzvt.Or(a.hi < b.hi, zzvt.And(a.hi == b.hi, a.lo <= b.lo))
}

// zzSupply is the exact sum of all balances in the context plus pending deferred transfers.
func zzSupply(x ResultContext) zzU128 {
	var s zzU128
	for _, a := range x.PartialState.ServiceAccounts {
		s = s.add(uint64(a.ServiceInfo.Balance))
	}
	for _, t := range x.DeferredTransfers {
		s = s.add(uint64(t.Balance))
	}
	return s
}

func zzThreshold(i types.ServiceInfo) zzU128 {
	// B_S + B_I*items + B_L*octets - gratis, floored at zero, in 128 bits
	raw := zzU128{0, 100 + 10*uint64(i.Items)}.add(uint64(i.Bytes))
	g := uint64(i.DepositOffset)
	if raw.hi == 0 && raw.lo <= g {
		return zzU128{}
	}
	lo := raw.lo - g
	return zzU128{raw.hi - zzvt.Ite64(raw.lo < g, 1, 0), lo}
}

// zzPoolKey / zzPoolLookup identify the entries of the raw key-value pool (state entries that
// could not be attributed when the state was imported): a storage entry "p" of the caller and a
// lookup record (hash 9.., length 3) with one slot, between two unrelated entries.
var zzPoolLookupKey = types.LookupMetaMapkey{Hash: types.OpaqueHash{9}, Length: 3}

func zzRawPool(sid types.ServiceID) types.StateKeyVals {
	if !zzWithRawPool {
		return types.StateKeyVals{}
	}
	return types.StateKeyVals{
		{Key: types.StateKey{0xAA, 1}, Value: []byte{1}},
		{Key: merklization.WrapEncodeDelta2KeyVal(sid, types.ByteSequence("p"), nil).Key, Value: []byte{42, 43}},
		{Key: merklization.EncodeDelta4Key(sid, zzPoolLookupKey), Value: []byte{1, 5, 0, 0, 0}},
		{Key: types.StateKey{0xBB, 2}, Value: []byte{2}},
	}
}

// zzWithRawPool is switched on by the harnesses that exercise the raw pool.
var zzWithRawPool = false

// zzCallerAssigns is switched on by the harnesses that exercise the privileged calls: the
// caller is then the assigner of core 0 and the authorizer queues are populated.
var zzCallerAssigns = false
