package PVM

import "github.com/New-JAMneration/JAM-Protocol/internal/zzvt"

// ---- the sequencing logic of the block engine against A.1, for every handler behaviour ----

type zzCall struct {
	idx  int
	gas  Gas
	exit ExitReason
	npc  ProgramCounter
}

// zzLoopProgram builds a pre-decoded program of k instructions whose handlers return
// arbitrary (exit, pc) pairs and log their calls. Every basic block ends with a terminator
// (as preDecodeBlocks guarantees); opcode 1 (fallthrough) marks terminators, 100 others.
func zzLoopProgram(k int, log *[]zzCall) (*Program, int) {
	instrs := make([]InstrMeta, k)
	pc := ProgramCounter(0)
	for i := 0; i < k; i++ {
		term := i == k-1 || zzvt.Bool("terminator")
		op := byte(100)
		if term {
			op = 1
		}
		skip := uint8(zzvt.Range("skip", 0, 1) * 2)
		idx := i
		instrs[i] = InstrMeta{PC: pc, Opcode: op, SkipLen: skip}
		instrs[i].Exec = func(in *Interpreter, m *InstrMeta) (ExitReason, ProgramCounter) {
			var exit ExitReason
			switch zzvt.Range("handlerExit", 0, 5) {
			case 0:
				exit = ExitContinue
			case 1:
				exit = ExitHalt
			case 2:
				exit = ExitPanic
			case 3:
				exit = ExitOOG
			case 4:
				exit = ExitPageFault | ExitReason(zzvt.U32("faultAddr"))
			case 5:
				exit = ExitHostCall | ExitReason(zzvt.U32("hostCallID"))
			}
			npc := m.PC
			if zzvt.Bool("jumps") {
				npc = ProgramCounter(zzvt.U8("target"))
			}
			*log = append(*log, zzCall{idx: idx, gas: in.Gas, exit: exit, npc: npc})
			return exit, npc
		}
		pc += ProgramCounter(skip) + 1
	}
	n := int(pc)
	p := &Program{Instrs: instrs, BlockAt: make([]*BlockMeta, n), InstrIdxAt: make([]int32, n)}
	for i := range p.InstrIdxAt {
		p.InstrIdxAt[i] = -1
	}
	start := 0
	for i := range instrs {
		p.InstrIdxAt[instrs[i].PC] = int32(i)
		if IsBlockTerminator(instrs[i].Opcode) {
			p.BlockAt[instrs[start].PC] = &BlockMeta{StartPC: instrs[start].PC, EndPC: instrs[i].PC, InstrStart: start, InstrEnd: i + 1}
			start = i + 1
		}
	}
	return p, n
}

// ZZ_C01_loop (also serves C04): SingleStepInvokeDecodedBlocks against the A.1 sequencing rules: out-of-gas iff
// gas < 1 before a step (reported at that instruction, nothing executed), exactly one unit per
// executed instruction, halt/panic reset the pc to 0, page-fault/out-of-gas keep it, a host call
// resumes at the next instruction, a handler that moved the pc jumps there, otherwise execution
// falls through to pc+1+skip; a pc that is not an instruction start panics. Bound: programs
// of 1..2 instructions (thorough: 3), initial gas -1..3 (hence at most 3 steps), start pc 0..7.
//zz:workers=16 paths=200000
func ZZ_C01_loop() { zzLoop(2) }

// ZZ_C01_loop_3: programs of up to 3 instructions.
//zz:tier=thorough workers=16 paths=400000
func ZZ_C01_loop_3() { zzLoop(3) }

func zzLoop(kmax int) {
	k := zzvt.Range("instructions", 1, kmax)
	var log []zzCall
	prog, n := zzLoopProgram(k, &log)
	gas0 := Gas(zzvt.Range("gas", -1, 3))
	pc0 := ProgramCounter(zzvt.Range("startPC", 0, 7))
	in := &Interpreter{Program: prog, Gas: gas0}
	exitR, pcR := in.SingleStepInvokeDecodedBlocks(pc0)

	pc, gas, j := pc0, gas0, 0
	for steps := 0; steps < 8; steps++ {
		if int(pc) >= n || prog.InstrIdxAt[pc] < 0 {
			zzvt.Assert(exitR == ExitPanic && pcR == 0, "not-an-instruction-start-panics")
			zzvt.Assert(j == len(log) && in.Gas == gas, "no-further-step-executed")
			return
		}
		i := int(prog.InstrIdxAt[pc])
		m := &prog.Instrs[i]
		if gas < 1 {
			zzvt.Assert(exitR == ExitOOG && pcR == m.PC, "out-of-gas-before-unpaid-step")
			zzvt.Assert(j == len(log) && in.Gas == gas, "unpaid-step-not-executed")
			return
		}
		gas--
		if j >= len(log) {
			zzvt.Assert(false, "instruction-executed")
			return
		}
		c := log[j]
		j++
		zzvt.Assert(c.idx == i, "executes-the-instruction-at-pc")
		zzvt.Assert(c.gas == gas, "one-gas-unit-charged-before-execution")
		switch c.exit.GetReasonType() {
		case HALT, PANIC:
			zzvt.Assert(exitR == c.exit && pcR == 0, "halt-or-panic-resets-pc")
			zzvt.Assert(j == len(log) && in.Gas == gas, "stops-after-exit")
			return
		case PAGE_FAULT, OUT_OF_GAS:
			zzvt.Assert(exitR == c.exit && pcR == m.PC, "fault-keeps-pc")
			zzvt.Assert(j == len(log) && in.Gas == gas, "stops-after-exit")
			return
		case HOST_CALL:
			zzvt.Assert(exitR == c.exit && pcR == m.PC+ProgramCounter(m.SkipLen)+1, "host-call-resumes-at-next-instruction")
			zzvt.Assert(j == len(log) && in.Gas == gas, "stops-after-exit")
			return
		}
		if c.npc != m.PC {
			pc = c.npc
		} else {
			pc = m.PC + ProgramCounter(m.SkipLen) + 1
		}
	}
	zzvt.Assert(false, "terminates-within-gas-bound")
}

// ZZ_C01_mem_store / ZZ_C01_mem_load: the memory instructions are part of the machine of C01
// (final memory, fault exit and address). Their obligations are those of the C05 harnesses
// (every store/load width at page boundaries against the Gray Paper memory model, a faulting
// access changes neither memory nor the destination register), run here as part of C01.
//zz:workers=8
func ZZ_C01_mem_store() { ZZ_C05_store() }

//zz:workers=8
func ZZ_C01_mem_load() { ZZ_C05_load() }
