package PVM

import (
	"github.com/New-JAMneration/JAM-Protocol/internal/types"
	"github.com/New-JAMneration/JAM-Protocol/internal/zzvt"
)

func zzVM(regs *Registers, gas *Gas) *VMState {
	return &VMState{Registers: regs, Memory: &Memory{Pages: map[uint32]*Page{}}, Gas: gas}
}

// ZZ_C04_charge: the host-call prologue shared by every host call, on `gas` (Ω_G) and on the
// unknown-identifier path: exactly 10 units are charged; out-of-gas iff the balance after the
// charge is negative; otherwise ω7 = remaining gas (gas) / WHAT (unknown) and no other register
// changes. Bound: none (all 64-bit gas values except the 10 lowest, where the subtraction wraps).
func ZZ_C04_charge() {
	regs := zzSymRegs()
	before := regs
	g := Gas(zzvt.I64("gas"))
	zzvt.Assume(g >= -1<<63+10)
	g0 := g
	unknown := zzvt.Bool("unknownCall")
	var out OmegaOutput
	in := OmegaInput{VM: zzVM(&regs, &g)}
	if unknown {
		out = hostCallException(in)
	} else {
		out = gas(in)
	}
	zzvt.Assert(g == g0-10, "host-call-charges-exactly-10")
	if g0-10 < 0 {
		zzvt.Assert(out.ExitReason == ExitOOG, "out-of-gas-iff-charge-not-payable")
		zzvt.Assert(regs == before, "registers-untouched-on-out-of-gas")
		return
	}
	zzvt.Assert(out.ExitReason == ExitContinue, "continues-when-payable")
	if unknown {
		zzvt.Assert(regs[7] == WHAT, "unknown-call-returns-WHAT")
	} else {
		zzvt.Assert(regs[7] == uint64(g0-10), "gas-call-returns-remaining-gas")
	}
	for i := range regs {
		if i != 7 {
			zzvt.Assert(regs[i] == before[i], "only-register-7-changes")
		}
	}
}

// ZZ_C04_used: the gas an invocation reports (A.41 R): limit - max(remaining, 0), for every
// 64-bit limit and every remaining balance the interpreter can leave (<= the limit it was
// started with): the reported usage lies between 0 and the limit.
func ZZ_C04_used() {
	limit := types.Gas(zzvt.U64("limit"))
	zzvt.Assume(uint64(limit) < 1<<63) // limits >= 2^63: ZZ_C04_psim
	rem := Gas(zzvt.I64("remaining"))
	zzvt.Assume(rem <= Gas(limit))
	var regs Registers
	exit := []ExitReason{ExitOOG, ExitPanic, ExitHalt}[zzvt.Range("exit", 0, 2)]
	used, _, _ := R(limit, Psi_H_ReturnType{ExitReason: exit, VM: zzVM(&regs, &rem)})
	zzvt.Assert(used >= 0 && uint64(used) <= uint64(limit), "reported-usage-between-0-and-limit")
	want := uint64(limit)
	if rem > 0 {
		want -= uint64(rem)
	}
	zzvt.Assert(uint64(used) == want, "reported-usage-is-limit-minus-remaining")
}

// zzTinyBlob is a standard program blob (A.37) with no data sections whose code is
// `fallthrough; trap` (two one-byte instructions, each a basic block).
func zzTinyBlob() StandardCodeFormat {
	code := []byte{0, 0, 2, 1, 0, 0x03} // |j|=0, z=0, |c|=2, c=[fallthrough, trap], bitmask 0b11
	p := []byte{0, 0, 0, 0, 0, 0, 0, 0, 0, 0, 0} // |o|=0 |w|=0 z=0 s=0
	p = append(p, byte(len(code)), 0, 0, 0)
	return append(p, code...)
}

// ZZ_C04_psim: Ψ_M on the program `fallthrough; trap` for every 64-bit gas limit: it runs out
// of gas exactly when the limit cannot pay for the next instruction (limit 0: before the
// first, limit 1: before the second), panics at the trap otherwise, and reports usage
// min(limit, 2), which is between 0 and the limit.
func ZZ_C04_psim() {
	limit := types.Gas(zzvt.U64("limit"))
	res := Psi_M(zzTinyBlob(), 0, limit, nil, Omegas{}, HostCallArgs{})
	want := uint64(2)
	if uint64(limit) < 2 {
		want = uint64(limit)
	}
	zzvt.Assert(uint64(res.Gas) <= uint64(limit), "reported-usage-at-most-limit")
	if uint64(limit) >= 2 {
		zzvt.AssertKF(res.ReasonOrBytes == any(PANIC), "runs-while-gas-suffices", "KF-C04-1", uint64(limit) >= 1<<63)
	} else {
		zzvt.Assert(res.ReasonOrBytes == any(OUT_OF_GAS), "out-of-gas-when-limit-too-small")
	}
	zzvt.AssertKF(uint64(res.Gas) == want, "reported-usage-is-steps-executed", "KF-C04-1", uint64(limit) >= 1<<63)
}

// ZZ_C04_loop: the metering clauses of the block-engine loop (shared body with ZZ_C01_loop).
//zz:workers=16 paths=200000
func ZZ_C04_loop() { zzLoop(2) }

// ZZ_C04_transfer_gas: the one host call with a variable charge. The obligations are those of
// ZZ_C08_transfer (gas after a successful transfer is the gas before minus 10 minus the
// transfer gas, an unpayable transfer gas - including values of 2^63 and above - ends in
// out-of-gas with nothing left, error returns charge 10): the gas counter never grows.
//zz:workers=16
func ZZ_C04_transfer_gas() { ZZ_C08_transfer() }

// ZZ_C04_unknown_call_gas: the charge of a host call that has no table entry, through the real
// dispatcher on the program `ecalli <id>; trap`, for every gas limit 1..40: when the 10 units
// cannot be paid after the ecalli's own unit (limits 1..10) the invocation is out of gas with the
// charge applied (balance limit-11 < 0, so the whole limit is reported as used and nothing is left
// in hand); from limit 12 on it answers WHAT, continues and ends in the trap with limit-12 left.
//zz:workers=4
func ZZ_C04_unknown_call_gas() {
	imm := []uint32{27, 99, 1000, 0xffffffff}[zzvt.Range("identifier", 0, 3)]
	code := ProgramCode{10, byte(imm), byte(imm >> 8), byte(imm >> 16), byte(imm >> 24), 0}
	bm := Bitmask{3, 0, 0, 0, 0, 3}
	prog := &Program{InstructionData: code, Bitmasks: bm}
	zzvt.Assert(prog.preDecodeBlocks() == ExitContinue, "program-decodes")
	limit := zzvt.Range("gasLimit", 1, 40)
	regs := zzSymRegs()
	h := NewHost(prog, regs, &Memory{Pages: map[uint32]*Page{}}, Gas(limit), HostCallArgs{}, AccumulateOmegas)
	res := h.HostCall(0, 0)
	switch {
	case limit <= 10:
		zzvt.Assert(res.ExitReason.GetReasonType() == OUT_OF_GAS, "unpayable-unknown-call-is-out-of-gas")
		zzvt.Assert(h.Interpreter.Gas == Gas(limit-11), "unpayable-unknown-call-leaves-nothing-in-hand")
	case limit >= 12:
		zzvt.Assert(res.ExitReason == ExitPanic, "paid-unknown-call-continues")
		zzvt.Assert(h.Interpreter.Gas == Gas(limit-12), "unknown-call-charged-10")
		zzvt.Assert(h.Interpreter.Registers[7] == WHAT, "unknown-call-answers-WHAT")
	}
}
