package PVM

import (
	"github.com/New-JAMneration/JAM-Protocol/internal/types"
	"github.com/New-JAMneration/JAM-Protocol/internal/zzvt"
)

func zzMarkedCtx(mark byte) ResultContext {
	acc := zzEmptyAccount(types.ServiceInfo{Balance: types.U64(mark)})
	h := types.OpaqueHash{mark}
	return ResultContext{
		ServiceID:         zzCaller,
		PartialState:      types.PartialStateSet{ServiceAccounts: types.ServiceAccountState{zzCaller: acc}, Bless: types.ServiceID(mark)},
		ImportServiceID:   types.ServiceID(70000 + int(mark)),
		DeferredTransfers: []types.DeferredTransfer{{Balance: types.U64(mark)}},
		Exception:         &h,
		ServiceBlobs:      map[types.OpaqueHash]types.ServiceBlob{{mark}: {ServiceID: types.ServiceID(mark), Blob: []byte{mark}}},
		StorageKeyVal:     &types.StateKeyVals{{Key: types.StateKey{mark}, Value: []byte{mark}}},
	}
}

// ZZ_C10_collapse: the collapse function C (B.13): out-of-gas and panic return every component
// of the checkpoint context y; a halt returns x's, and a return value of exactly 32 bytes takes
// precedence over the yielded hash (any other length leaves the yielded hash). Return values of
// every length 0..40 with arbitrary contents.
//zz:workers=8
func ZZ_C10_collapse() {
	x, y := zzMarkedCtx(1), zzMarkedCtx(2)
	var outcome any
	kind := zzvt.Range("outcome", 0, 3)
	var ret []byte
	switch kind {
	case 0:
		outcome = OUT_OF_GAS
	case 1:
		outcome = PANIC
	case 2:
		outcome = nil // halt with no output
	case 3:
		ret = zzvt.Bytes("ret", zzvt.Range("retLen", 0, 40))
		outcome = ret
	}
	gas := types.Gas(zzvt.U64("gasUsed"))
	ps, dts, res, g, blobs, kv := C(gas, outcome, AccumulateArgs{ResultContextX: x, ResultContextY: y})
	want := byte(1)
	if kind <= 1 {
		want = 2
	}
	zzvt.Assert(g == gas, "gas-passed-through")
	zzvt.Assert(ps.Bless == types.ServiceID(want) && ps.ServiceAccounts[zzCaller].ServiceInfo.Balance == types.U64(want), "state-from-the-right-context")
	zzvt.Assert(len(dts) == 1 && dts[0].Balance == types.U64(want), "transfers-from-the-right-context")
	zzvt.Assert(len(blobs) == 1 && blobs[0].ServiceID == types.ServiceID(want), "provided-preimages-from-the-right-context")
	zzvt.Assert(len(kv) == 1 && kv[0].Key[0] == want, "raw-entries-from-the-right-context")
	if kind == 3 && len(ret) == 32 {
		zzvt.Assert(res != nil && zzvt.EqBytes(res[:], ret), "32-byte-return-value-takes-precedence")
	} else {
		zzvt.Assert(res != nil && res[0] == want, "yielded-hash-from-the-right-context")
	}
}

// ---- checkpoint isolation ----------------------------------------------------------------

type zzLeafSnap struct {
	info     map[types.ServiceID]types.ServiceInfo
	storage  map[string][]byte
	lookups  map[types.LookupMetaMapkey][]types.TimeSlot
	preimage map[types.OpaqueHash][]byte
	ntrans   int
	yielded  *types.OpaqueHash
	nblobs   int
	kv       []types.StateKeyVal
	manager  types.ServiceID
	// privileged state
	designate, registrar types.ServiceID
	assign               []types.ServiceID
	queues               [][]types.AuthorizerHash
	nvalidators          int
}

func zzSnapCtx(c ResultContext) zzLeafSnap {
	s := zzLeafSnap{info: map[types.ServiceID]types.ServiceInfo{}, storage: map[string][]byte{}, lookups: map[types.LookupMetaMapkey][]types.TimeSlot{}, preimage: map[types.OpaqueHash][]byte{}}
	for id, a := range c.PartialState.ServiceAccounts {
		s.info[id] = a.ServiceInfo
		if id == zzCaller {
			for k, v := range a.StorageDict {
				s.storage[k] = append([]byte(nil), v...)
			}
			for k, v := range a.LookupDict {
				s.lookups[k] = append([]types.TimeSlot(nil), v...)
			}
			for k, v := range a.PreimageLookup {
				s.preimage[k] = append([]byte(nil), v...)
			}
		}
	}
	s.ntrans = len(c.DeferredTransfers)
	if c.Exception != nil {
		h := *c.Exception
		s.yielded = &h
	}
	s.nblobs = len(c.ServiceBlobs)
	for _, e := range *c.StorageKeyVal {
		s.kv = append(s.kv, types.StateKeyVal{Key: e.Key, Value: append([]byte(nil), e.Value...)})
	}
	s.manager = c.PartialState.Bless
	s.designate, s.registrar = c.PartialState.Designate, c.PartialState.CreateAcct
	s.assign = append([]types.ServiceID(nil), c.PartialState.Assign...)
	for _, q := range c.PartialState.Authorizers {
		s.queues = append(s.queues, append([]types.AuthorizerHash(nil), q...))
	}
	s.nvalidators = len(c.PartialState.ValidatorKeys)
	return s
}

func (s zzLeafSnap) sameAs(c ResultContext, label string) {
	zzvt.Assert(len(c.PartialState.ServiceAccounts) == len(s.info), label)
	for id, i := range s.info {
		a, ok := c.PartialState.ServiceAccounts[id]
		zzvt.Assert(ok && a.ServiceInfo == i, label)
	}
	a := c.PartialState.ServiceAccounts[zzCaller]
	zzvt.Assert(len(a.StorageDict) == len(s.storage) && len(a.LookupDict) == len(s.lookups) && len(a.PreimageLookup) == len(s.preimage), label)
	for k, v := range s.storage {
		zzvt.Assert(zzvt.EqBytes(a.StorageDict[k], v), label)
	}
	for k, v := range s.lookups {
		got, ok := a.LookupDict[k]
		zzvt.Assert(ok && len(got) == len(v), label)
		for i := range v {
			if i < len(got) {
				zzvt.Assert(got[i] == v[i], label)
			}
		}
	}
	for k, v := range s.preimage {
		zzvt.Assert(zzvt.EqBytes(a.PreimageLookup[k], v), label)
	}
	zzvt.Assert(len(c.DeferredTransfers) == s.ntrans && len(c.ServiceBlobs) == s.nblobs, label)
	zzvt.Assert((c.Exception == nil) == (s.yielded == nil), label)
	if c.Exception != nil && s.yielded != nil {
		zzvt.Assert(*c.Exception == *s.yielded, label)
	}
	zzvt.Assert(len(*c.StorageKeyVal) == len(s.kv), label)
	for i := range s.kv {
		if i < len(*c.StorageKeyVal) {
			e := (*c.StorageKeyVal)[i]
			zzvt.Assert(e.Key == s.kv[i].Key && zzvt.EqBytes(e.Value, s.kv[i].Value), label)
		}
	}
	zzvt.Assert(c.PartialState.Bless == s.manager, label)
	zzvt.Assert(c.PartialState.Designate == s.designate && c.PartialState.CreateAcct == s.registrar, label)
	zzvt.Assert(len(c.PartialState.Assign) == len(s.assign) && len(c.PartialState.Authorizers) == len(s.queues) && len(c.PartialState.ValidatorKeys) == s.nvalidators, label)
	for i := range s.assign {
		if i < len(c.PartialState.Assign) {
			zzvt.Assert(c.PartialState.Assign[i] == s.assign[i], label)
		}
	}
	for i, q := range s.queues {
		if i < len(c.PartialState.Authorizers) {
			got := c.PartialState.Authorizers[i]
			zzvt.Assert(len(got) == len(q), label)
			for j := range q {
				if j < len(got) {
					zzvt.Assert(got[j] == q[j], label)
				}
			}
		}
	}
}

// zzRichCtx: the caller owns one storage entry, one lookup record of 0..3 slots and one
// preimage; a second account can be ejected; balances are ample so that mutations succeed.
func zzRichCtx() (OmegaInput, *Registers) { return zzRichCtxN(-1) }

// zzPoorCaller: the caller's balance is arbitrary (0..2^40) instead of ample, so that the
// FULL/CASH outcomes of the mutating calls are reachable.
var zzPoorCaller = false

func zzRichCtxN(nslots int) (OmegaInput, *Registers) {
	bal := types.U64(1 << 40)
	if zzPoorCaller {
		bal = types.U64(zzvt.U64("callerBalance"))
		zzvt.Assume(bal <= 1<<40)
	}
	caller := zzEmptyAccount(types.ServiceInfo{Balance: bal, Items: 3, Bytes: 200})
	caller.StorageDict["a"] = []byte{zzvt.U8("stored")}
	var lh types.OpaqueHash
	lh[0] = 7
	if nslots < 0 {
		nslots = zzvt.Range("lookupSlots", 0, 3)
	}
	slots := make(types.TimeSlotSet, nslots)
	for i := range slots {
		slots[i] = types.TimeSlot(i + 1)
	}
	caller.LookupDict[types.LookupMetaMapkey{Hash: lh, Length: 5}] = slots
	caller.PreimageLookup[lh] = []byte{1, 2, 3, 4, 5}
	other := zzEmptyAccount(types.ServiceInfo{Balance: 500, Items: 2, Bytes: 86})
	c := uint32(zzCaller)
	other.ServiceInfo.CodeHash = types.OpaqueHash{byte(c), byte(c >> 8), byte(c >> 16), byte(c >> 24)}
	other.LookupDict[types.LookupMetaMapkey{Hash: lh, Length: 5}] = types.TimeSlotSet{1, 2}
	args, _ := zzAccumulateCtx(types.ServiceAccountState{zzCaller: caller, zzBystander: other})
	args.Timeslot = 1000
	regs := zzSymRegs()
	gas := Gas(1 << 40)
	mem := zzGuestMem()
	// guest data: bytes 0..31 = the lookup hash (7,0,0,...), byte 64 = 'a' (storage key), 65 = new value
	pg := mem.Pages[16]
	for i := 0; i < 32; i++ {
		pg.Value[i] = lh[i]
	}
	pg.Value[64] = 'a'
	return OmegaInput{VM: &VMState{Registers: &regs, Memory: mem, Gas: &gas}, Addition: args}, &regs
}

// ZZ_C10_checkpoint: after `checkpoint`, one arbitrary state-changing host call on the working
// context x (write, delete, solicit, forget, transfer, new, upgrade, eject, yield, assign, or a
// write/read/forget that consumes an entry of the raw key-value pool, with
// arbitrary register arguments around valid inputs) leaves every leaf reachable from the
// checkpoint y (account infos, storage, lookup records, preimages, transfers, yielded hash,
// raw entries, privileges) exactly as it was when the checkpoint was taken.
//zz:workers=16 paths=100000
func ZZ_C10_checkpoint() {
	zzWithRawPool = true
	defer func() { zzWithRawPool = false }()
	prevAssigns := zzCallerAssigns
	zzCallerAssigns = true // the caller is the assigner of core 0 (case 12)
	defer func() { zzCallerAssigns = prevAssigns }()
	in, regs := zzRichCtx()
	in.VM.Memory.Pages[16].Value[66] = 'p' // key of the pooled storage entry
	in.VM.Memory.Pages[16].Value[160] = 9  // hash of the pooled lookup record (9,0,0,...)
	for i := 161; i < 192; i++ {
		in.VM.Memory.Pages[16].Value[i] = 0
	}
	out := checkpoint(in)
	in.Addition = out.Addition
	zzvt.Assert(out.ExitReason == ExitContinue && regs[7] == uint64(*in.VM.Gas), "checkpoint-returns-remaining-gas")
	snapY := zzSnapCtx(in.Addition.ResultContextY)
	snapX := zzSnapCtx(in.Addition.ResultContextX)
	snapY.sameAs(in.Addition.ResultContextX, "checkpoint-copies-the-working-context")
	_ = snapX
	call := zzvt.Range("call", 0, 12)
	var res OmegaOutput
	switch call {
	case 0: // write a value
		regs[7], regs[8], regs[9], regs[10] = zzGuestBase+64, 1, zzGuestBase+65, 1
		res = write(in)
	case 1: // delete the entry
		regs[7], regs[8], regs[10] = zzGuestBase+64, 1, 0
		res = write(in)
	case 2:
		regs[7], regs[8] = zzGuestBase, 5+uint64(zzvt.Range("otherLength", 0, 1))
		res = solicit(in)
	case 3:
		regs[7], regs[8] = zzGuestBase, 5
		res = forget(in)
	case 4:
		regs[7], regs[10] = uint64(zzBystander), zzGuestBase+100
		zzvt.Assume(regs[8] < 1<<20)
		zzvt.Assume(regs[9] < 1<<30) // transfer gas payable
		res = transfer(in)
	case 5:
		regs[7] = zzGuestBase
		zzvt.Assume(regs[8] < 1000)
		regs[11] = 0
		res = new(in)
	case 6:
		regs[7] = zzGuestBase
		res = upgrade(in)
	case 7:
		regs[7], regs[8] = uint64(zzBystander), zzGuestBase
		res = eject(in)
	case 8:
		regs[7] = zzGuestBase + 32
		res = yield(in)
	case 9: // overwrite the storage entry that lives only in the raw pool
		regs[7], regs[8], regs[9], regs[10] = zzGuestBase+66, 1, zzGuestBase+65, 1
		res = write(in)
	case 10: // read it (reading one's own pooled entry caches it and removes it from the pool)
		regs[7], regs[8], regs[9], regs[10], regs[11], regs[12] = NONE, zzGuestBase+66, 1, zzGuestBase+300, 0, 2
		res = read(in)
	case 11: // forget the lookup record that lives only in the raw pool
		regs[7], regs[8] = zzGuestBase+160, 3
		res = forget(in)
	case 12: // hand core 0 to another assigner and replace its authorizer queue
		regs[7], regs[8], regs[9] = 0, zzGuestBase+300, 77
		res = assign(in)
	}
	zzvt.Assert(res.ExitReason == ExitContinue, "mutating-call-returns")
	if call == 12 {
		zzvt.Assert(regs[7] == OK && res.Addition.ResultContextX.PartialState.Assign[0] == 77, "assign-took-place")
	}
	if regs[7] == OK || call <= 1 || call == 5 {
		zzvt.Cover("mutation-took-place")
	}
	snapY.sameAs(res.Addition.ResultContextY, "checkpoint-copy-unaffected-by-later-mutation")
}

// ZZ_C10_out_of_gas_call: a host call (checkpoint included) that cannot pay its 10 units of gas
// (every gas balance 0..9) exits out-of-gas with the working context x, the checkpoint
// y, the registers and the guest memory exactly as they were; x differs from y beforehand in
// the yielded hash, a deferred transfer and a storage entry, so a checkpoint taken before the
// charge would show. Psi_A's collapse then yields y (ZZ_C10_collapse).
//zz:workers=8
func ZZ_C10_out_of_gas_call() {
	zzCallerAssigns = true
	hc := zzAccumulateCalls[zzvt.Range("hostCall", 0, len(zzAccumulateCalls)-1)]
	in, regs := zzRichCtxN(2)
	var yh types.OpaqueHash
	yh[0] = 0x77
	x := &in.Addition.ResultContextX
	x.Exception = &yh
	x.DeferredTransfers = append(x.DeferredTransfers, types.DeferredTransfer{SenderID: zzCaller, ReceiverID: zzBystander, Balance: 5})
	x.PartialState.ServiceAccounts[zzCaller].StorageDict["b"] = []byte{1}
	g := Gas(zzvt.I64("gas"))
	zzvt.Assume(g >= 0 && g < 10) // the instruction loop never enters a host call with a negative balance (C04)
	*in.VM.Gas = g
	before := *regs
	snapX := zzSnapCtx(in.Addition.ResultContextX)
	snapY := zzSnapCtx(in.Addition.ResultContextY)
	mem0 := zzGuestSnap(in.VM.Memory)
	out := hc.fn(in)
	zzvt.Assert(out.ExitReason.GetReasonType() == OUT_OF_GAS, "unpayable-call-is-out-of-gas")
	snapX.sameAs(out.Addition.ResultContextX, "out-of-gas-call-leaves-working-context")
	snapY.sameAs(out.Addition.ResultContextY, "out-of-gas-call-leaves-checkpoint")
	for i := range regs {
		zzvt.Assert(regs[i] == before[i], "out-of-gas-call-leaves-registers")
	}
	zzvt.Assert(zzvt.EqBytes(in.VM.Memory.Pages[16].Value[:512], mem0[16][:512]), "out-of-gas-call-writes-no-guest-memory")
}
