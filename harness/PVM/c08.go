package PVM

import (
	"github.com/New-JAMneration/JAM-Protocol/internal/types"
	"github.com/New-JAMneration/JAM-Protocol/internal/zzvt"
)

func zzBalances(x ResultContext) map[types.ServiceID]types.U64 {
	out := map[types.ServiceID]types.U64{}
	for id, a := range x.PartialState.ServiceAccounts {
		out[id] = a.ServiceInfo.Balance
	}
	return out
}

// zzConservationSetup: caller and a bystander with arbitrary 64-bit balances, item/octet counts
// and gratis offsets, under the invariant that the total supply fits in 64 bits.
func zzConservationSetup() (HostCallArgs, *Registers, *Gas, OmegaInput) {
	accounts := types.ServiceAccountState{zzCaller: zzEmptyAccount(zzInfo("caller")), zzBystander: zzEmptyAccount(zzInfo("other"))}
	args, _ := zzAccumulateCtx(accounts)
	zzvt.Assume(zzSupply(args.ResultContextX).hi == 0) // invariant: the supply never exceeded 2^64-1
	// stated bound: the caller's threshold is representable (footprints beyond 2^64 octets are outside)
	zzvt.Assume(zzThreshold(args.ResultContextX.PartialState.ServiceAccounts[zzCaller].ServiceInfo).hi == 0)
	regs := zzSymRegs()
	gas := Gas(1 << 40)
	in := OmegaInput{VM: &VMState{Registers: &regs, Memory: zzGuestMem(), Gas: &gas}, Addition: args}
	return args, &regs, &gas, in
}

// ZZ_C08_new: service creation from an arbitrary caller state: the total supply does not
// grow, the creator pays exactly the new account's balance, no balance wraps, and a caller that
// would fall below its own threshold gets CASH with every balance unchanged.
//zz:workers=16
func ZZ_C08_new() {
	_, regs, _, in := zzConservationSetup()
	regs[7] = zzGuestBase // code hash location (readable)
	zzvt.Assume(regs[8] < 1<<32)
	before := zzBalances(in.Addition.ResultContextX)
	supply0 := zzSupply(in.Addition.ResultContextX)
	callerInfo := in.Addition.ResultContextX.PartialState.ServiceAccounts[zzCaller].ServiceInfo
	out := new(in)
	x := out.Addition.ResultContextX
	zzvt.Assert(out.ExitReason == ExitContinue, "new-continues")
	zzvt.Assert(zzSupply(x).le(supply0), "supply-does-not-grow")
	after := zzBalances(x)
	created := len(after) - len(before)
	zzvt.Assert(created == 0 || created == 1, "at-most-one-account-created")
	if created == 1 {
		var nb types.U64
		for id, b := range after {
			if _, old := before[id]; !old {
				nb = b
			}
		}
		zzvt.Assert(before[zzCaller] >= nb, "creator-can-afford-the-new-account")
		zzvt.Assert(after[zzCaller] == before[zzCaller]-nb, "creator-pays-exactly-the-new-balance")
		zzvt.Assert(after[zzBystander] == before[zzBystander], "bystander-untouched")
		// the creator stays at or above its own threshold
		zzvt.Assert(zzThreshold(callerInfo).le(zzU128{0, uint64(after[zzCaller])}), "creator-stays-above-threshold")
	} else {
		zzvt.Assert(after[zzCaller] == before[zzCaller] && after[zzBystander] == before[zzBystander], "no-creation-no-balance-change")
	}
	if regs[7] == CASH {
		zzvt.Assert(created == 0, "CASH-creates-nothing")
	}
}

// ZZ_C08_transfer: a transfer moves exactly its amount from the sender into one deferred
// transfer (or changes nothing): supply constant, no wrap, CASH when the sender would fall
// below its threshold; the additional gas charge ω9 is applied exactly on success, and the
// call runs out of gas (gas := 0) when it cannot be paid.
//zz:workers=16
func ZZ_C08_transfer() {
	_, regs, gas, in := zzConservationSetup()
	*gas = Gas(zzvt.I64("gas"))
	zzvt.Assume(*gas >= 10)
	g0 := *gas - 10
	regs[10] = zzGuestBase // memo location
	dest := regs[7]
	amount, gl := regs[8], regs[9]
	before := zzBalances(in.Addition.ResultContextX)
	supply0 := zzSupply(in.Addition.ResultContextX)
	callerInfo := in.Addition.ResultContextX.PartialState.ServiceAccounts[zzCaller].ServiceInfo
	out := transfer(in)
	x := out.Addition.ResultContextX
	after := zzBalances(x)
	s1 := zzSupply(x)
	zzvt.Assert(s1.le(supply0) && supply0.le(s1), "supply-constant")
	zzvt.Assert(after[zzBystander] == before[zzBystander] && len(after) == 2, "other-accounts-untouched")
	nt := len(x.DeferredTransfers)
	zzvt.Assert(nt == 0 || nt == 1, "at-most-one-deferred-transfer")
	if nt == 1 {
		t := x.DeferredTransfers[0]
		zzvt.Assert(uint64(t.Balance) == amount && t.SenderID == zzCaller, "deferred-transfer-carries-the-amount")
		zzvt.Assert(uint64(t.ReceiverID) == dest, "deferred-transfer-goes-to-the-named-service")
		zzvt.Assert(uint64(before[zzCaller]) >= amount && after[zzCaller] == before[zzCaller]-types.U64(amount), "sender-pays-exactly-the-amount")
		zzvt.Assert(zzThreshold(callerInfo).le(zzU128{0, uint64(after[zzCaller])}), "sender-stays-above-threshold")
		if out.ExitReason == ExitContinue {
			zzvt.Assert(regs[7] == OK && *gas == g0-Gas(gl) && uint64(g0) >= gl, "success-charges-the-transfer-gas")
		} else {
			zzvt.Assert(out.ExitReason == ExitOOG && *gas == 0 && uint64(g0) < gl, "unpayable-transfer-gas-is-out-of-gas")
		}
	} else {
		zzvt.Assert(after[zzCaller] == before[zzCaller], "no-transfer-no-balance-change")
		zzvt.Assert(out.ExitReason == ExitContinue && *gas == g0, "error-return-charges-only-the-base-cost")
		zzvt.Assert(regs[7] == WHO || regs[7] == LOW || regs[7] == CASH, "error-code")
	}
}

// ZZ_C08_upgrade: upgrade never touches a balance.
func ZZ_C08_upgrade() {
	_, regs, _, in := zzConservationSetup()
	regs[7] = zzGuestBase
	before := zzBalances(in.Addition.ResultContextX)
	out := upgrade(in)
	after := zzBalances(out.Addition.ResultContextX)
	zzvt.Assert(len(after) == 2 && after[zzCaller] == before[zzCaller] && after[zzBystander] == before[zzBystander], "upgrade-leaves-balances")
}

// ZZ_C08_eject: ejection moves the ejected balance to the caller (supply constant, no wrap
// under the supply invariant) or changes nothing.
//zz:workers=16
func ZZ_C08_eject() {
	accounts := types.ServiceAccountState{zzCaller: zzEmptyAccount(zzInfo("caller")), zzBystander: zzEmptyAccount(zzInfo("victim"))}
	// the victim names the caller as its code hash (E_32(caller)) or not
	v := accounts[zzBystander]
	if zzvt.Bool("victimNamesCaller") {
		c := uint32(zzCaller)
		v.ServiceInfo.CodeHash = types.OpaqueHash{byte(c), byte(c >> 8), byte(c >> 16), byte(c >> 24)}
	}
	var h types.OpaqueHash
	zzvt.FillBytes("lookupHash", h[:2])
	slots := make(types.TimeSlotSet, zzvt.Range("lookupSlots", 0, 3))
	for i := range slots {
		slots[i] = types.TimeSlot(zzvt.U32("slot"))
	}
	v.LookupDict[types.LookupMetaMapkey{Hash: h, Length: types.U32(zzvt.U32("lookupLen"))}] = slots
	accounts[zzBystander] = v
	args, _ := zzAccumulateCtx(accounts)
	zzvt.Assume(zzSupply(args.ResultContextX).hi == 0)
	regs := zzSymRegs()
	gas := Gas(1 << 40)
	mem := zzGuestMem()
	in := OmegaInput{VM: &VMState{Registers: &regs, Memory: mem, Gas: &gas}, Addition: args}
	regs[8] = zzGuestBase
	before := zzBalances(args.ResultContextX)
	supply0 := zzSupply(args.ResultContextX)
	out := eject(in)
	x := out.Addition.ResultContextX
	after := zzBalances(x)
	s1 := zzSupply(x)
	zzvt.Assert(out.ExitReason == ExitContinue, "eject-continues")
	zzvt.Assert(s1.le(supply0) && supply0.le(s1), "supply-constant")
	if len(after) == 1 {
		zzvt.Assert(regs[7] == OK, "ejection-reports-OK")
		zzvt.Assert(after[zzCaller] == before[zzCaller]+before[zzBystander] && after[zzCaller] >= before[zzCaller], "caller-receives-the-ejected-balance")
	} else {
		zzvt.Assert(len(after) == 2 && after[zzCaller] == before[zzCaller] && after[zzBystander] == before[zzBystander], "no-ejection-no-balance-change")
		zzvt.Assert(regs[7] == WHO || regs[7] == HUH, "error-code")
	}
}

// ZZ_C08_collapse: a transfer (arbitrary balances, amount, destination and gas), optionally
// after a checkpoint, followed by every way of ending the invocation (out-of-gas, panic, halt
// without output, halt with a 32-byte output): the balances and deferred transfers that the
// collapse function C hands on to Psi_A hold exactly the supply from before the transfer, so a
// rolled-back debit is never paired with the deferred transfer it paid for.
//zz:workers=8
func ZZ_C08_collapse() {
	_, regs, _, in := zzConservationSetup()
	regs[10] = zzGuestBase
	supply0 := zzSupply(in.Addition.ResultContextX)
	if zzvt.Bool("checkpointFirst") {
		o := checkpoint(in)
		in.Addition = o.Addition
	}
	out := transfer(in)
	var outcome any
	switch zzvt.Range("outcome", 0, 3) {
	case 0:
		outcome = OUT_OF_GAS
	case 1:
		outcome = PANIC
	case 2:
		outcome = nil
	case 3:
		outcome = make([]byte, 32)
	}
	if len(out.Addition.ResultContextX.DeferredTransfers) == 1 {
		zzvt.Cover("transfer-took-place")
	}
	ps, dts, _, _, _, _ := C(0, outcome, out.Addition.AccumulateArgs)
	s1 := zzSupply(ResultContext{PartialState: ps, DeferredTransfers: dts})
	zzvt.Assert(s1.le(supply0) && supply0.le(s1), "collapsed-supply-constant")
}
