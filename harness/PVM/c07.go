package PVM

import (
	"github.com/New-JAMneration/JAM-Protocol/internal/types"
	"github.com/New-JAMneration/JAM-Protocol/internal/zzvt"
)

// ---- host-call discipline ------------------------------------------------------------------

// zzPickAddr: an address from the classes that decide the memory discipline: readable and
// writable (page 16), readable only (page 17), unmapped, inside the 2^16 zone.
func zzPickAddr(name string) uint64 {
	return []uint64{zzGuestBase, zzGuestBase + 300, 17 * ZP, 0x30000, 0x100}[zzvt.Range(name, 0, 4)]
}

type zzHC struct {
	name  string
	fn    Omega
	addrs []int // registers that carry addresses
	outs  []int // registers the call may write on a continue return
	small []int // registers carrying lengths/counts kept small
}

var zzAccumulateCalls = []zzHC{
	{"gas", gas, nil, []int{7}, nil},
	{"lookup", lookup, []int{8, 9}, []int{7}, []int{10, 11}},
	{"read", read, []int{8, 10}, []int{7}, []int{9, 11, 12}},
	{"write", write, []int{7, 9}, []int{7}, []int{8, 10}},
	{"info", info, []int{8}, []int{7}, []int{9, 10}},
	{"bless", bless, []int{8, 11}, []int{7}, []int{12}},
	{"assign", assign, []int{8}, []int{7}, nil},
	{"designate", designate, []int{7}, []int{7}, nil},
	{"checkpoint", checkpoint, nil, []int{7}, nil},
	{"new", new, []int{7}, []int{7}, nil},
	{"upgrade", upgrade, []int{7}, []int{7}, nil},
	{"transfer", transfer, []int{10}, []int{7}, nil},
	{"eject", eject, []int{8}, []int{7}, nil},
	{"query", query, []int{7}, []int{7, 8}, nil},
	{"solicit", solicit, []int{7}, []int{7}, nil},
	{"forget", forget, []int{7}, []int{7}, nil},
	{"yield", yield, []int{7}, []int{7}, nil},
	{"provide", provide, []int{8}, []int{7}, []int{9}},
}

func zzIsErrorCode(v uint64) bool {
	return zzvt.Or(v == NONE, zzvt.Or(v == WHAT, zzvt.Or(v == OOB, zzvt.Or(v == WHO, zzvt.Or(v == FULL, zzvt.Or(v == CORE, zzvt.Or(v == CASH, zzvt.Or(v == LOW, v == HUH))))))))
}

func zzGuestSnap(m *Memory) map[uint32][]byte {
	s := map[uint32][]byte{}
	for p, pg := range m.Pages {
		s[p] = append([]byte(nil), pg.Value...)
	}
	return s
}

// ZZ_C07_discipline: every general and accumulate host call, from a context with data in every
// component, with address registers drawn from {writable, read-only, unmapped, below 2^16} and
// the other registers arbitrary: gas changes by exactly the charge; on a `continue` return only
// the registers the call is specified to write change; on a panic exit, and whenever register 7
// carries an error code, the service state (accounts with storage/lookup/preimages, transfers,
// yielded hash, provided preimages, raw entries, privileges) is unchanged; read-only and
// unmapped guest pages are never written and the page count never changes.
//zz:workers=16 paths=200000
func ZZ_C07_discipline() { zzDiscipline(false) }

// ZZ_C07_discipline_poor: the same obligations with an arbitrary caller balance (0..2^40), which
// makes the FULL and CASH returns of write, solicit, new, transfer and eject reachable: a call
// that returns them has not touched any dictionary, counter or balance.
//zz:workers=16 paths=200000
func ZZ_C07_discipline_poor() { zzDiscipline(true) }

func zzDiscipline(poor bool) {
	zzCallerAssigns = true
	zzPoorCaller = poor
	defer func() { zzPoorCaller = false }()
	hc := zzAccumulateCalls[zzvt.Range("hostCall", 0, len(zzAccumulateCalls)-1)]
	in, regs := zzRichCtxN(2)
	for k, r := range hc.addrs {
		if k == 0 {
			regs[r] = zzPickAddr("addr")
		} else {
			regs[r] = []uint64{zzGuestBase + 300, 17 * ZP, 0x30000}[zzvt.Range("addr2", 0, 2)]
		}
	}
	for _, r := range hc.small {
		regs[r] = []uint64{0, 1, 5, 33}[zzvt.Range("len", 0, 3)]
	}
	// guest data is concrete here (keys are turned into Go strings by the host calls)
	for i := 100; i < 256; i++ {
		in.VM.Memory.Pages[16].Value[i] = byte(i)
	}
	for i := 32; i < 64; i++ {
		in.VM.Memory.Pages[16].Value[i] = 0
	}
	for i := 66; i < 100; i++ {
		in.VM.Memory.Pages[16].Value[i] = 0
	}
	if hc.name == "transfer" {
		zzvt.Assume(regs[9] < 1<<30) // transfer gas payable (the unpayable case is C04/C08)
	}
	before := *regs
	g0 := *in.VM.Gas
	snap := zzSnapCtx(in.Addition.ResultContextX)
	mem0 := zzGuestSnap(in.VM.Memory)
	var out OmegaOutput
	panicked := zzvt.Try(func() { out = hc.fn(in) })
	zzvt.Assert(!panicked, "host-call-does-not-crash")
	if panicked {
		return
	}
	rt := out.ExitReason.GetReasonType()
	zzvt.Assert(rt == CONTINUE || rt == PANIC || (hc.name == "transfer" && rt == OUT_OF_GAS), "defined-exit")
	if rt == CONTINUE {
		zzvt.Assert(*in.VM.Gas == g0-10 || hc.name == "transfer", "charges-exactly-10")
		for i := range regs {
			allowed := false
			for _, o := range hc.outs {
				allowed = allowed || o == i
			}
			if !allowed {
				zzvt.Assert(regs[i] == before[i], "only-specified-registers-change")
			}
		}
	}
	if rt == PANIC {
		snap.sameAs(out.Addition.ResultContextX, "panic-has-no-side-effect-on-state")
	}
	if rt == CONTINUE && hc.name != "gas" && hc.name != "checkpoint" && hc.name != "query" && hc.name != "lookup" && hc.name != "read" && hc.name != "write" && hc.name != "info" {
		// calls whose register 7 is a status word
		if zzIsErrorCodeConcrete(regs[7]) {
			snap.sameAs(out.Addition.ResultContextX, "error-code-leaves-state-unchanged")
		}
	}
	// guest memory: pages other than the writable one are never modified, no page appears
	zzvt.Assert(len(in.VM.Memory.Pages) == len(mem0), "guest-page-set-unchanged")
	zzvt.Assert(zzvt.EqBytes(in.VM.Memory.Pages[17].Value[:64], mem0[17][:64]), "read-only-page-not-written")
	if rt == PANIC {
		zzvt.Assert(zzvt.EqBytes(in.VM.Memory.Pages[16].Value[:512], mem0[16][:512]), "panic-writes-no-guest-memory")
	}
}

func zzIsErrorCodeConcrete(v uint64) bool {
	return v == NONE || v == WHAT || v == OOB || v == WHO || v == FULL || v == CORE || v == CASH || v == LOW || v == HUH
}

// ZZ_C07_service_id_range: a service-id register above 2^32-1 (other than 2^64-1 where that
// means "self") names no service: lookup/read/info answer NONE, transfer/provide answer WHO -
// they must not truncate the register and hit an unrelated service.
//zz:workers=8
func ZZ_C07_service_id_range() {
	which := zzvt.Range("call", 0, 4)
	in, regs := zzRichCtxN(0)
	// the bystander, whose id the truncated register would hit, owns matching data
	by := in.Addition.ResultContextX.PartialState.ServiceAccounts[zzBystander]
	by.PreimageLookup[types.OpaqueHash{7}] = []byte{9, 9}
	by.StorageDict["a"] = []byte{9}
	hi := zzvt.U32("highBits")
	zzvt.Assume(hi != 0)
	sid := uint64(hi)<<32 | uint64(zzBystander)
	zzvt.Assume(sid != NONE)
	switch which {
	case 0:
		regs[7], regs[8], regs[9], regs[10], regs[11] = sid, zzGuestBase, zzGuestBase+300, 0, 0
		lookup(in)
		zzvt.AssertKF(regs[7] == NONE, "lookup-of-out-of-range-service-is-NONE", "KF-C07-1", true)
	case 1:
		regs[7], regs[8], regs[9], regs[10], regs[11], regs[12] = sid, zzGuestBase+64, 1, zzGuestBase+300, 0, 0
		read(in)
		zzvt.AssertKF(regs[7] == NONE, "read-of-out-of-range-service-is-NONE", "KF-C07-1", true)
	case 2:
		regs[7], regs[8], regs[9], regs[10] = sid, zzGuestBase+300, 0, 0
		info(in)
		zzvt.AssertKF(regs[7] == NONE, "info-of-out-of-range-service-is-NONE", "KF-C07-1", true)
	case 3:
		regs[7], regs[8], regs[9], regs[10] = sid, 1, 0, zzGuestBase+100
		transfer(in)
		zzvt.Assert(regs[7] == WHO, "transfer-to-out-of-range-service-is-WHO")
	case 4:
		regs[7], regs[8], regs[9] = sid, zzGuestBase, 5
		provide(in)
		zzvt.AssertKF(regs[7] == WHO, "provide-for-out-of-range-service-is-WHO", "KF-C07-1", true)
	}
}

// ZZ_C07_unknown: an ecalli with an identifier that has no entry in the host-call table
// (every 64-bit value reachable from a <=4-byte immediate: sign-extended 32-bit values) charges
// 10 gas, answers WHAT in register 7, changes nothing else and continues after the ecalli -
// exercised through the real Host.HostCall dispatcher on a one-instruction program.
//zz:workers=4
func ZZ_C07_unknown() {
	// identifiers: inside the table range but unassigned (27, 63, 99), and everything above
	// the table (symbolic, up to 2^32-1, which the 4-byte immediate sign-extends to 2^64-1)
	var imm uint32
	switch zzvt.Range("idClass", 0, 3) {
	case 0:
		imm = 27
	case 1:
		imm = 63
	case 2:
		imm = 99
	case 3:
		imm = zzvt.U32("identifier")
		zzvt.Assume(imm > 100)
	}
	// program: ecalli imm (5 bytes), trap
	code := ProgramCode{10, byte(imm), byte(imm >> 8), byte(imm >> 16), byte(imm >> 24), 0}
	bm := Bitmask{3, 0, 0, 0, 0, 3}
	prog := &Program{InstructionData: code, Bitmasks: bm}
	zzvt.Assert(prog.preDecodeBlocks() == ExitContinue, "program-decodes")
	regs := zzSymRegs()
	h := NewHost(prog, regs, &Memory{Pages: map[uint32]*Page{}}, 100, HostCallArgs{}, AccumulateOmegas)
	var res Psi_H_ReturnType
	panicked := zzvt.Try(func() { res = h.HostCall(0, 0) })
	zzvt.Assert(!panicked, "unknown-identifier-does-not-crash")
	if panicked {
		return
	}
	// ecalli (1 gas), unknown call (10 gas), trap (1 gas)
	zzvt.Assert(res.ExitReason == ExitPanic, "continues-to-the-next-instruction")
	zzvt.Assert(h.Interpreter.Gas == 100-12, "charges-10-for-the-unknown-call")
	zzvt.Assert(h.Interpreter.Registers[7] == WHAT, "answers-WHAT")
	for i := range regs {
		if i != 7 {
			zzvt.Assert(h.Interpreter.Registers[i] == regs[i], "other-registers-unchanged")
		}
	}
}

// ZZ_C07_write_pool: `write` on a key that the caller holds only in the raw key-value pool
// (state entries not attributed at import): when the call ends in a panic (value range not
// readable) or answers FULL (the caller cannot afford the new value), the service state - the
// raw pool included - is exactly what it was.
//zz:workers=8
func ZZ_C07_write_pool() {
	zzWithRawPool = true
	defer func() { zzWithRawPool = false }()
	in, regs := zzRichCtxN(1)
	in.VM.Memory.Pages[16].Value[66] = 'p' // key of the pooled storage entry
	poor := zzvt.Bool("callerCannotAfford")
	if poor {
		// drop the caller's balance below any threshold, in every copy the call may consult
		a := in.Addition.ResultContextX.PartialState.ServiceAccounts[zzCaller]
		a.ServiceInfo.Balance = 0
		in.Addition.ResultContextX.PartialState.ServiceAccounts[zzCaller] = a
		in.Addition.ServiceAccount.ServiceInfo.Balance = 0
		regs[7], regs[8], regs[9], regs[10] = zzGuestBase+66, 1, zzGuestBase+100, 40
	} else {
		regs[7], regs[8], regs[9], regs[10] = zzGuestBase+66, 1, 0x30000, 1 // value range unmapped
	}
	snap := zzSnapCtx(in.Addition.ResultContextX)
	var out OmegaOutput
	zzvt.Assert(!zzvt.Try(func() { out = write(in) }), "write-does-not-crash")
	if poor {
		zzvt.Assert(out.ExitReason == ExitContinue && regs[7] == FULL, "unaffordable-write-is-FULL")
		snap.sameAs(out.Addition.ResultContextX, "FULL-leaves-state-and-raw-pool-unchanged")
	} else {
		zzvt.Assert(out.ExitReason == ExitPanic, "unreadable-value-panics")
		snap.sameAs(out.Addition.ResultContextX, "panic-leaves-state-and-raw-pool-unchanged")
	}
}
