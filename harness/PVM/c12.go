package PVM

import "github.com/New-JAMneration/JAM-Protocol/internal/zzvt"

// ZZ_C12_pvm_dec: ReadUintVariable accepts only canonical encodings and reports their length.
func ZZ_C12_pvm_dec() {
	n := zzvt.Range("n", 0, 10)
	data := zzvt.Bytes("in", n)
	v, k, exit := ReadUintVariable(data)
	if exit == ExitContinue {
		zzvt.Cover("accepted")
		zzvt.Assert(zzvt.IsRefNatPrefix(data, v), "dec-accepts-only-canonical")
		zzvt.Assert(k == zzvt.RefNatLen(v), "dec-consumed-length")
	}
}

// ZZ_C12_pvm_dec_complete: canonical encodings followed by junk decode to their value.
func ZZ_C12_pvm_dec_complete() {
	v := zzvt.U64("v")
	enc, n := zzvt.RefNatEnc(v)
	data := append(append([]byte{}, enc[:n]...), zzvt.Bytes("junk", 2)...)
	got, k, exit := ReadUintVariable(data)
	zzvt.Assert(exit == ExitContinue, "dec-accepts-canonical")
	zzvt.Assert(got == v && k == n, "dec-roundtrip")
}
