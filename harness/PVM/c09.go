package PVM

import (
	"github.com/New-JAMneration/JAM-Protocol/internal/service_account"
	"github.com/New-JAMneration/JAM-Protocol/internal/types"
	"github.com/New-JAMneration/JAM-Protocol/internal/zzvt"
)

// ZZ_C09_threshold: CalcThresholdBalance equals max(0, B_S + B_I*items + B_L*octets - gratis)
// computed over the integers, for every (items:u32, octets:u64, gratis:u64) whose true
// result fits in 64 bits. Bound: none beyond the machine words.
func ZZ_C09_threshold() {
	items := zzvt.U32("items")
	octets := zzvt.U64("octets")
	gratis := zzvt.U64("gratis")
	got := service_account.CalcThresholdBalance(types.U32(items), types.U64(octets), types.U64(gratis))
	// oracle in 128-bit arithmetic (hi:lo)
	lo := uint64(items)*10 + 100 // < 2^36, no overflow
	sum := lo + octets
	carry := uint64(0)
	if sum < lo {
		carry = 1
	}
	var want uint64
	if carry == 0 && sum <= gratis {
		want = 0
	} else {
		diff := sum - gratis
		borrow := uint64(0)
		if sum < gratis {
			borrow = 1
		}
		hi := carry - borrow
		zzvt.Assume(hi == 0) // stated bound: the true threshold is representable
		want = diff
	}
	zzvt.Assert(uint64(got) == want, "threshold-formula")
}
