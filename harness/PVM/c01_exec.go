package PVM

import "github.com/New-JAMneration/JAM-Protocol/internal/zzvt"

// ---- helpers shared by the PVM harnesses --------------------------------------

func zzSymRegs() Registers {
	var r Registers
	for i := range r {
		r[i] = zzvt.U64("reg")
	}
	return r
}

func zzRegIdx(name string) uint8 {
	r := zzvt.U8(name)
	zzvt.Assume(r < 13)
	return r
}

func zzX4(x uint32) uint64 { return uint64(int64(int32(x))) }

func zzPop(a uint64, n uint) uint64 {
	var c uint64
	for i := uint(0); i < n; i++ {
		c += (a >> i) & 1
	}
	return c
}

func zzClz(a uint64, n uint) uint64 {
	var c, run uint64 = 0, 1
	for i := int(n) - 1; i >= 0; i-- {
		run &= 1 ^ ((a >> uint(i)) & 1)
		c += run
	}
	return c
}

func zzCtz(a uint64, n uint) uint64 {
	var c, run uint64 = 0, 1
	for i := uint(0); i < n; i++ {
		run &= 1 ^ ((a >> i) & 1)
		c += run
	}
	return c
}

func zzB2U(b bool) uint64 {
	if b {
		return 1
	}
	return 0
}

func zzRotl64(x uint64, k uint64) uint64 { k &= 63; return x<<k | x>>((64-k)&63) }
func zzRotr64(x uint64, k uint64) uint64 { k &= 63; return x>>k | x<<((64-k)&63) }
func zzRotl32(x uint32, k uint64) uint32 { k &= 31; return x<<k | x>>((32-k)&31) }
func zzRotr32(x uint32, k uint64) uint32 { k &= 31; return x>>k | x<<((32-k)&31) }

// zzRef3 is Appendix B.3 for the three-register opcodes 190..230 except the
// multiply-high family (213..215): value written to ω_D given a = ω_A, b = ω_B, d = old ω_D.
func zzRef3(op byte, a, b, d uint64) uint64 {
	a32, b32 := uint32(a), uint32(b)
	sa32, sb32 := int32(a32), int32(b32)
	sa, sb := int64(a), int64(b)
	switch op {
	case 190:
		return zzX4(a32 + b32)
	case 191:
		return zzX4(a32 - b32)
	case 192:
		return zzX4(a32 * b32)
	case 193:
		if b32 == 0 {
			return ^uint64(0)
		}
		return zzX4(a32 / b32)
	case 194:
		if sb32 == 0 {
			return ^uint64(0)
		}
		if sa32 == -1<<31 && sb32 == -1 {
			return uint64(int64(sa32))
		}
		// Z_4(a) / Z_4(b) over the integers (64-bit arithmetic is exact here)
		return uint64(int64(sa32) / int64(sb32))
	case 195:
		if b32 == 0 {
			return zzX4(a32)
		}
		return zzX4(a32 % b32)
	case 196:
		if sa32 == -1<<31 && sb32 == -1 {
			return 0
		}
		if sb32 == 0 {
			return uint64(int64(sa32))
		}
		return uint64(int64(sa32) % int64(sb32))
	case 197:
		return zzX4(a32 << (b & 31))
	case 198:
		return zzX4(a32 >> (b & 31))
	case 199:
		return uint64(int64(sa32 >> (b & 31)))
	case 200:
		return a + b
	case 201:
		return a - b
	case 202:
		return a * b
	case 203:
		if b == 0 {
			return ^uint64(0)
		}
		return a / b
	case 204:
		if b == 0 {
			return ^uint64(0)
		}
		if sa == -1<<63 && sb == -1 {
			return a
		}
		return uint64(sa / sb)
	case 205:
		if b == 0 {
			return a
		}
		return a % b
	case 206:
		if sa == -1<<63 && sb == -1 {
			return 0
		}
		if b == 0 {
			return a
		}
		return uint64(sa % sb)
	case 207:
		return a << (b & 63)
	case 208:
		return a >> (b & 63)
	case 209:
		return uint64(sa >> (b & 63))
	case 210:
		return a & b
	case 211:
		return a ^ b
	case 212:
		return a | b
	case 216:
		return zzB2U(a < b)
	case 217:
		return zzB2U(sa < sb)
	case 218:
		return zzvt.Ite64(b == 0, a, d)
	case 219:
		return zzvt.Ite64(b != 0, a, d)
	case 220:
		return zzRotl64(a, b)
	case 221:
		return zzX4(zzRotl32(a32, b))
	case 222:
		return zzRotr64(a, b)
	case 223:
		return zzX4(zzRotr32(a32, b))
	case 224:
		return a &^ b
	case 225:
		return a | ^b
	case 226:
		return ^(a ^ b)
	case 227:
		return zzvt.Ite64(sa > sb, a, b)
	case 228:
		return zzvt.Ite64(a > b, a, b)
	case 229:
		return zzvt.Ite64(sa < sb, a, b)
	case 230:
		return zzvt.Ite64(a < b, a, b)
	}
	panic("zzRef3: opcode not covered")
}

// zzRef2i is B.3 for the two-register-one-immediate ALU opcodes 131..161: value
// written to ω_A given b = ω_B, x = ν_X and d = old ω_A.
func zzRef2i(op byte, b, x, d uint64) uint64 {
	b32, x32 := uint32(b), uint32(x)
	switch op {
	case 131:
		return zzX4(b32 + x32)
	case 132:
		return b & x
	case 133:
		return b ^ x
	case 134:
		return b | x
	case 135:
		return zzX4(b32 * x32)
	case 136:
		return zzB2U(b < x)
	case 137:
		return zzB2U(int64(b) < int64(x))
	case 138:
		return zzX4(b32 << (x & 31))
	case 139:
		return zzX4(b32 >> (x & 31))
	case 140:
		return uint64(int64(int32(b32) >> (x & 31)))
	case 141:
		return zzX4(x32 - b32)
	case 142:
		return zzB2U(b > x)
	case 143:
		return zzB2U(int64(b) > int64(x))
	case 144:
		return zzX4(x32 << (b & 31))
	case 145:
		return zzX4(x32 >> (b & 31))
	case 146:
		return uint64(int64(int32(x32) >> (b & 31)))
	case 147:
		return zzvt.Ite64(b == 0, x, d)
	case 148:
		return zzvt.Ite64(b != 0, x, d)
	case 149:
		return b + x
	case 150:
		return b * x
	case 151:
		return b << (x & 63)
	case 152:
		return b >> (x & 63)
	case 153:
		return uint64(int64(b) >> (x & 63))
	case 154:
		return x - b
	case 155:
		return x << (b & 63)
	case 156:
		return x >> (b & 63)
	case 157:
		return uint64(int64(x) >> (b & 63))
	case 158:
		return zzRotr64(b, x)
	case 159:
		return zzRotr64(x, b)
	case 160:
		return zzX4(zzRotr32(b32, x))
	case 161:
		return zzX4(zzRotr32(x32, b))
	}
	panic("zzRef2i: opcode not covered")
}

// zzRef2 is B.3 for the two-register opcodes 100, 102..111.
func zzRef2(op byte, a uint64) uint64 {
	switch op {
	case 100:
		return a
	case 102:
		return zzPop(a, 64)
	case 103:
		return zzPop(a, 32)
	case 104:
		return zzClz(a, 64)
	case 105:
		return zzClz(a, 32)
	case 106:
		return zzCtz(a, 64)
	case 107:
		return zzCtz(a, 32)
	case 108:
		return uint64(int64(int8(a)))
	case 109:
		return uint64(int64(int16(a)))
	case 110:
		return a & 0xFFFF
	case 111:
		var r uint64
		for i := uint(0); i < 8; i++ {
			r |= ((a >> (8 * i)) & 0xFF) << (8 * (7 - i))
		}
		return r
	}
	panic("zzRef2: opcode not covered")
}

// zzCheckFrame asserts that nothing but register d changed.
func zzCheckFrame(in *Interpreter, before Registers, gas Gas, d uint8) {
	for i := range before {
		zzvt.Assert(zzvt.Or(uint8(i) == d, in.Registers[i] == before[i]), "other-registers-unchanged")
	}
	zzvt.Assert(in.Gas == gas, "handler-does-not-touch-gas")
}

// ZZ_C01_exec_three_reg: every three-register ALU handler (opcodes 190..230 except
// mul_upper_*) against Appendix A.5.13, for all register values, all register index
// triples (with aliasing) and every pc. Bound: none beyond the machine words.
//zz:workers=8
func ZZ_C01_exec_three_reg() {
	op := byte(zzvt.Range("op", 190, 230))
	if op >= 213 && op <= 215 {
		return
	}
	zzvt.Assert(opcodeInfoTable[op].Category == InstrCatThreeReg, "category")
	regs := zzSymRegs()
	gas := Gas(zzvt.I64("gas"))
	in := &Interpreter{Registers: regs, Gas: gas}
	ra, rb, rd := zzRegIdx("ra"), zzRegIdx("rb"), zzRegIdx("rd")
	m := &InstrMeta{PC: ProgramCounter(zzvt.U32("pc")), Opcode: op, SkipLen: 2, Dst: rd, Src: [2]uint8{ra, rb}, Exec: instrMetaExecForOpcode(op)}
	a, b, d := regs[ra], regs[rb], regs[rd]
	exit, npc := m.Exec(in, m)
	zzvt.Assert(exit == ExitContinue, "exit-continue")
	zzvt.Assert(npc == m.PC, "pc-unchanged-by-handler")
	zzvt.Assert(in.Registers[rd] == zzRef3(op, a, b, d), "result")
	zzCheckFrame(in, regs, gas, rd)
}

// ZZ_C01_exec_two_reg_imm: every two-register-one-immediate ALU handler (131..161)
// against A.5.10, all values, all register index pairs, every immediate.
//zz:workers=8
func ZZ_C01_exec_two_reg_imm() {
	op := byte(zzvt.Range("op", 131, 161))
	zzvt.Assert(opcodeInfoTable[op].Category == InstrCatTwoRegOneImm, "category")
	regs := zzSymRegs()
	gas := Gas(zzvt.I64("gas"))
	in := &Interpreter{Registers: regs, Gas: gas}
	ra, rb := zzRegIdx("ra"), zzRegIdx("rb")
	vx := zzvt.U64("vx")
	m := &InstrMeta{PC: ProgramCounter(zzvt.U32("pc")), Opcode: op, SkipLen: 5, Dst: ra, Src: [2]uint8{rb, 0xFF}, Imm: [2]uint64{vx, 0}, Exec: instrMetaExecForOpcode(op)}
	b, d := regs[rb], regs[ra]
	exit, npc := m.Exec(in, m)
	zzvt.Assert(exit == ExitContinue, "exit-continue")
	zzvt.Assert(npc == m.PC, "pc-unchanged-by-handler")
	zzvt.Assert(in.Registers[ra] == zzRef2i(op, b, vx, d), "result")
	zzCheckFrame(in, regs, gas, ra)
}

// ZZ_C01_exec_two_reg: two-register handlers 100, 102..111 (sbrk is C05) against A.5.9.
//zz:workers=4
func ZZ_C01_exec_two_reg() {
	op := byte(zzvt.Range("op", 100, 111))
	if op == 101 {
		return
	}
	zzvt.Assert(opcodeInfoTable[op].Category == InstrCatTwoReg, "category")
	regs := zzSymRegs()
	gas := Gas(zzvt.I64("gas"))
	in := &Interpreter{Registers: regs, Gas: gas}
	rd, ra := zzRegIdx("rd"), zzRegIdx("ra")
	m := &InstrMeta{PC: ProgramCounter(zzvt.U32("pc")), Opcode: op, SkipLen: 1, Dst: rd, Src: [2]uint8{ra, 0xFF}, Exec: instrMetaExecForOpcode(op)}
	a := regs[ra]
	exit, npc := m.Exec(in, m)
	zzvt.Assert(exit == ExitContinue, "exit-continue")
	zzvt.Assert(npc == m.PC, "pc-unchanged-by-handler")
	zzvt.Assert(in.Registers[rd] == zzRef2(op, a), "result")
	zzCheckFrame(in, regs, gas, rd)
}

// ZZ_C01_exec_load_imm: load_imm (51) and load_imm_64 (20) write ν_X to ω_A.
func ZZ_C01_exec_load_imm() {
	op := byte(20)
	if zzvt.Bool("is51") {
		op = 51
	}
	regs := zzSymRegs()
	gas := Gas(zzvt.I64("gas"))
	in := &Interpreter{Registers: regs, Gas: gas}
	ra := zzRegIdx("ra")
	vx := zzvt.U64("vx")
	m := &InstrMeta{PC: ProgramCounter(zzvt.U32("pc")), Opcode: op, SkipLen: 9, Dst: ra, Src: [2]uint8{ra, 0xFF}, Imm: [2]uint64{vx, 0}, Exec: instrMetaExecForOpcode(op)}
	exit, npc := m.Exec(in, m)
	zzvt.Assert(exit == ExitContinue && npc == m.PC, "exit-continue")
	zzvt.Assert(in.Registers[ra] == vx, "result")
	zzCheckFrame(in, regs, gas, ra)
}

// zzMulUpper: the multiply-high handlers (213 s×s, 214 u×u, 215 s×u) with the five register
// aliasing patterns; operands bounded (see callers) because full-width 64x64->128
// equivalence is out of reach of the solvers here (DESIGN.md §2.9).
func zzMulUpper(op byte, limBits uint) {
	pat := zzvt.Range("aliasing", 0, 4)
	var ra, rb, rd uint8
	switch pat {
	case 0:
		ra, rb, rd = 3, 5, 7
	case 1:
		ra, rb, rd = 4, 4, 9
	case 2:
		ra, rb, rd = 6, 2, 6
	case 3:
		ra, rb, rd = 1, 8, 8
	case 4:
		ra, rb, rd = 12, 12, 12
	}
	regs := zzSymRegs()
	a, b := regs[ra], regs[rb]
	lim := int64(1) << limBits
	sa, sb := op == 213 || op == 215, op == 213
	if limBits < 64 {
		if sa {
			zzvt.Assume(int64(a) < lim && int64(a) >= -lim)
		} else {
			zzvt.Assume(a < uint64(lim))
		}
		if sb {
			zzvt.Assume(int64(b) < lim && int64(b) >= -lim)
		} else {
			zzvt.Assume(b < uint64(lim))
		}
	}
	in := &Interpreter{Registers: regs, Gas: 7}
	m := &InstrMeta{PC: 11, Opcode: op, SkipLen: 2, Dst: rd, Src: [2]uint8{ra, rb}, Exec: instrMetaExecForOpcode(op)}
	exit, npc := m.Exec(in, m)
	zzvt.Assert(exit == ExitContinue && npc == m.PC, "exit-continue")
	zzvt.Assert(in.Registers[rd] == zzvt.MulHi(a, b, sa, sb), "mul-upper-result")
	zzCheckFrame(in, regs, 7, rd)
}

// ZZ_C01_exec_mul_upper_ss: opcode 213, |operands| < 2^16.
//zz:workers=4
func ZZ_C01_exec_mul_upper_ss() { zzMulUpper(213, 16) }

// ZZ_C01_exec_mul_upper_uu: opcode 214, operands < 2^16.
//zz:workers=4
func ZZ_C01_exec_mul_upper_uu() { zzMulUpper(214, 16) }

// ZZ_C01_exec_mul_upper_su: opcode 215, |a| < 2^16, b < 2^16.
//zz:workers=4
func ZZ_C01_exec_mul_upper_su() { zzMulUpper(215, 16) }
