package PVM

import (
	"github.com/New-JAMneration/JAM-Protocol/internal/types"
	"github.com/New-JAMneration/JAM-Protocol/internal/zzvt"
)

// zzNoCrash runs f and asserts the C03 obligations: no Go panic, and at most bound elements
// allocated.
func zzNoCrash(bound int, f func()) {
	zzvt.AllocBudget(bound)
	panicked := zzvt.Try(f)
	// one label: the engine reports an over-budget allocation as a panic at the make(), the
	// native replay either panics there or measures the allocation afterwards
	zzvt.Assert(!panicked && zzvt.Allocated() <= bound, "no-go-panic-and-allocation-bounded")
}

// ZZ_C03_deblob: DeBlobProgramCode on every byte string of length 0..4 returns a program or a
// panic exit reason; no Go panic; allocations bounded by a constant.
//zz:workers=16 paths=100000 conccap=300
func ZZ_C03_deblob() { zzDeblobAny(0, 4) }

// ZZ_C03_deblob_6: the same for lengths 5 and 6.
//zz:tier=thorough workers=16 paths=400000 conccap=300
func ZZ_C03_deblob_6() { zzDeblobAny(5, 6) }

func zzDeblobAny(lo, hi int) {
	data := zzvt.Bytes("blob", zzvt.Range("len", lo, hi))
	zzNoCrash(1<<16, func() {
		_, exit := DeBlobProgramCode(data)
		zzvt.Assert(exit == ExitContinue || exit == ExitPanic, "deblob-outcome-defined")
	})
}

// ZZ_C03_deblob_lengths: a blob whose three length fields (|j|, z, |c|) are arbitrary
// encodings (1, 2, 3 or 9 bytes) followed by 0..1 arbitrary bytes: declared lengths beyond
// the data are rejected without a Go panic and without allocating what they declare.
//zz:workers=16 paths=100000 conccap=300
func ZZ_C03_deblob_lengths() {
	var data []byte
	for i := 0; i < 3; i++ {
		if i == 1 {
			data = append(data, zzvt.U8("z"))
			continue
		}
		n := [4]int{1, 2, 3, 9}[zzvt.Range("fieldBytes", 0, 3)]
		f := zzvt.Bytes("field", n)
		// the prefix byte selects the length class
		switch n {
		case 1:
			zzvt.Assume(f[0] < 0x80)
		case 2:
			zzvt.Assume(zzvt.And(f[0] >= 0x80, f[0] < 0xc0))
		case 3:
			zzvt.Assume(zzvt.And(f[0] >= 0xc0, f[0] < 0xe0))
		case 9:
			zzvt.Assume(f[0] == 0xff)
		}
		data = append(data, f...)
	}
	data = append(data, zzvt.Bytes("rest", zzvt.Range("restLen", 0, 1))...)
	zzNoCrash(1<<16, func() {
		_, exit := DeBlobProgramCode(data)
		zzvt.Assert(exit == ExitContinue || exit == ExitPanic, "deblob-outcome-defined")
	})
}

// ZZ_C03_standard_header: Psi_M on a standard-program blob whose 11 header bytes
// (|o|, |w|, z, s) are arbitrary and which carries 0..4 further arbitrary bytes, with an
// argument of 0..1 bytes and a small gas limit: one of the defined outcomes, no Go panic,
// allocations bounded by the declared stack and heap pages plus a constant.
//zz:workers=16 paths=100000 conccap=300
func ZZ_C03_standard_header() {
	code := zzvt.Bytes("header", 11)
	// keep the declared zero-filled regions small enough to materialise: z <= 2 pages, s <= 8191
	zzvt.Assume(zzvt.And(code[7] == 0, code[6] <= 2))
	zzvt.Assume(zzvt.And(code[10] == 0, code[9] < 0x20))
	code = append(code, zzvt.Bytes("body", zzvt.Range("bodyLen", 0, 4))...)
	arg := zzvt.Bytes("arg", zzvt.Range("argLen", 0, 1))
	zzNoCrash(1<<20, func() {
		r := Psi_M(StandardCodeFormat(code), 0, types.Gas(zzvt.Range("gas", 0, 2)), Argument(arg), Omegas{}, HostCallArgs{})
		switch v := r.ReasonOrBytes.(type) {
		case ExitReasonType:
			zzvt.Assert(v == PANIC || v == OUT_OF_GAS, "psi-m-error-outcome-defined")
		case ExitReason:
			zzvt.Assert(v == ExitPanic, "psi-m-error-outcome-defined")
		case []byte, nil:
		default:
			zzvt.Assert(false, "psi-m-outcome-defined")
		}
	})
}

func zzRunProgram(codeLen int) {
	body := []byte{0, 0, byte(codeLen)}
	body = append(body, zzvt.Bytes("code", codeLen)...)
	body = append(body, zzvt.Bytes("bitmask", (codeLen+7)/8)...)
	blob := zzBlob(nil, nil, 0, 0, body)
	zzNoCrash(1<<20, func() {
		r := Psi_M(StandardCodeFormat(blob), 0, types.Gas(zzvt.Range("gas", 0, 3)), nil, Omegas{}, HostCallArgs{})
		switch v := r.ReasonOrBytes.(type) {
		case ExitReasonType:
			zzvt.Assert(v == PANIC || v == OUT_OF_GAS, "psi-m-error-outcome-defined")
		case ExitReason:
			zzvt.Assert(v == ExitPanic, "psi-m-error-outcome-defined")
		case []byte, nil:
		default:
			zzvt.Assert(false, "psi-m-outcome-defined")
		}
		zzvt.Assert(uint64(r.Gas) <= 3, "gas-used-within-limit")
	})
}

// ZZ_C03_run_1: Psi_M on a standard program whose code is one arbitrary byte with an
// arbitrary bitmask byte, gas 0..3: a defined outcome, no Go panic, bounded allocation, gas
// used within the limit (so no step is free).
//zz:workers=16 paths=100000 conccap=300
func ZZ_C03_run_1() { zzRunProgram(1) }

// ZZ_C03_run_3: the same for three arbitrary code bytes.
//zz:tier=thorough workers=16 paths=1000000 conccap=300
func ZZ_C03_run_3() { zzRunProgram(3) }

// ZZ_C03_operands: loading (deblob + pre-decoding) a program whose first instruction is one
// representative opcode of each operand format with arbitrary operand bytes and every skip
// length 0..13 (the bytes after the operands are a trap): no Go panic, bounded allocation.
// Covers the operand windows of the longest formats (two registers and two immediates).
//zz:workers=16 paths=100000
func ZZ_C03_operands() {
	ops := []byte{0, 10, 20, 30, 40, 51, 70, 80, 100, 120, 170, 180, 190}
	op := ops[zzvt.Range("format", 0, len(ops)-1)]
	l := zzvt.Range("skip", 0, 13)
	code := make([]byte, l+2)
	code[0] = op
	for i := 1; i <= l && i <= 3; i++ {
		code[i] = zzvt.U8("operand")
	}
	for i := 4; i <= l; i++ {
		code[i] = byte(i)
	}
	code[l+1] = 0 // trap
	mask := make([]byte, (len(code)+7)/8)
	mask[0] |= 1
	mask[(l+1)/8] |= 1 << uint((l+1)%8)
	blob := append([]byte{0, 0, byte(len(code))}, code...)
	blob = append(blob, mask...)
	zzNoCrash(1<<16, func() {
		_, exit := DeBlobProgramCode(blob)
		zzvt.Assert(exit == ExitContinue || exit == ExitPanic, "deblob-outcome-defined")
	})
}
