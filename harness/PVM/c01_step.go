package PVM

import "github.com/New-JAMneration/JAM-Protocol/internal/zzvt"

// ---- one decoded-and-executed instruction from symbolic code bytes ---------------
//
// The code slice has the backing-array layout DeBlobProgramCode produces: n code bytes
// immediately followed (same backing array, beyond len) by ceil(n/8) bitmask bytes.
// The expanded per-byte bitmask is symbolic over {0,1,3}; the skip length is computed by
// the real skip(), which enumerates ℓ = 0..min(24, n-pc-1).

type zzWin struct {
	n, pc int
	code  ProgramCode
	bm    Bitmask
	ell   ProgramCounter
	op    byte
}

func zzWindow(n, pc int, op byte) *zzWin { return zzWindowB(n, pc, op, true) }

// zzWindowB: with symBitmask=false the instruction simply extends to the end of the code.
func zzWindowB(n, pc int, op byte, symBitmask bool) *zzWin {
	backing := make([]byte, n+(n+7)/8)
	zzvt.FillBytes("code", backing)
	code := ProgramCode(backing[:n])
	code[pc] = op
	bm := make(Bitmask, n)
	for i := range bm {
		if !symBitmask {
			if i == pc {
				bm[i] = 3
			}
			continue
		}
		v := zzvt.U8("bm")
		zzvt.Assume(zzvt.Or(v == 0, zzvt.Or(v == 1, v == 3)))
		bm[i] = v
	}
	zzvt.Assume(bm[pc] != 0)
	w := &zzWin{n: n, pc: pc, code: code, bm: bm, op: op}
	w.ell = ProgramCounter(skip(pc, bm))
	return w
}

// z is ζ: the code, zero-extended.
func (w *zzWin) z(i int) byte {
	if i < w.n {
		return w.code[i]
	}
	return 0
}

func zzMin12(x byte) uint8 {
	if x > 12 {
		return 12
	}
	return x
}

// imm reads X_l(ζ[start..start+l)) for concrete start and l in 0..4.
func (w *zzWin) imm(start int, l int) uint64 {
	var v uint64
	for i := 0; i < l; i++ {
		v |= uint64(w.z(start+i)) << (8 * uint(i))
	}
	switch l {
	case 0:
		return 0
	case 1:
		return uint64(int64(int8(v)))
	case 2:
		return uint64(int64(int16(v)))
	case 3:
		return uint64(int64(v<<40) >> 40)
	}
	return uint64(int64(int32(v)))
}

func zzClampLen(x int) int {
	if x < 0 {
		return 0
	}
	if x > 4 {
		return 4
	}
	return x
}

// run executes the instruction with the pre-decoded engine.
func (w *zzWin) runDecoded(in *Interpreter) (ExitReason, ProgramCounter) {
	m := &InstrMeta{PC: ProgramCounter(w.pc), Opcode: w.op, SkipLen: uint8(w.ell), Exec: instrMetaExecForOpcode(w.op)}
	decodeOperands(m, w.code, w.bm)
	return m.Exec(in, m)
}

// runSingle executes it with the single-step engine's handler.
func (w *zzWin) runSingle(in *Interpreter) (ExitReason, ProgramCounter) {
	return execInstructions[w.op](in, ProgramCounter(w.pc), w.ell)
}

func (w *zzWin) interp(regs Registers, gas Gas) *Interpreter {
	return &Interpreter{Program: &Program{InstructionData: w.code, Bitmasks: w.bm}, Registers: regs, Gas: gas, Memory: &Memory{Pages: map[uint32]*Page{}}}
}


func (w *zzWin) run(in *Interpreter, single bool) (ExitReason, ProgramCounter) {
	if single {
		return w.runSingle(in)
	}
	return w.runDecoded(in)
}

// zzPick returns one of the listed opcodes (one path each).
func zzPick(ops ...byte) byte { return ops[zzvt.Range("opsel", 0, len(ops)-1)] }

// ---- register-only formats ---------------------------------------------------------

func zzStepThreeReg(single bool) {
	pc := 2
	n := zzvt.Range("n", pc+1, pc+4)
	op := zzPick(201, 218) // sub_64 (operand order), cmov_iz (destination kept)
	w := zzWindowB(n, pc, op, false)
	regs := zzSymRegs()
	in := w.interp(regs, 5)
	ra, rb, rd := zzMin12(w.z(pc+1)%16), zzMin12(w.z(pc+1)>>4), zzMin12(w.z(pc+2))
	a, b, d := regs[ra], regs[rb], regs[rd]
	exit, npc := w.run(in, single)
	zzvt.Assert(exit == ExitContinue, "exit-continue")
	zzvt.Assert(npc == ProgramCounter(pc), "pc-unchanged-by-handler")
	zzvt.Assert(in.Registers[rd] == zzRef3(op, a, b, d), "result")
	zzCheckFrame(in, regs, 5, rd)
}

// ZZ_C01_step_three_reg: decode+execute of three-register instructions (A.5.13) from symbolic
// code bytes with the block engine, including instructions cut short by the end of the code
// (operands then come from the zero extension ζ). Representative opcodes 201, 218; the other
// 39 handlers are covered field-wise by ZZ_C01_exec_three_reg. Bound: 1..4 bytes to the end.
//zz:workers=4
func ZZ_C01_step_three_reg() { zzStepThreeReg(false) }

// ZZ_C02_step_three_reg: the same instruction through the single-step engine.
//zz:workers=4
func ZZ_C02_step_three_reg() { zzStepThreeReg(true) }

func zzStepTwoReg(single bool) {
	pc := 2
	n := zzvt.Range("n", pc+1, pc+3)
	op := zzPick(100, 108)
	w := zzWindowB(n, pc, op, false)
	regs := zzSymRegs()
	in := w.interp(regs, 5)
	rd, ra := zzMin12(w.z(pc+1)%16), zzMin12(w.z(pc+1)>>4)
	a := regs[ra]
	exit, npc := w.run(in, single)
	zzvt.Assert(exit == ExitContinue, "exit-continue")
	zzvt.Assert(npc == ProgramCounter(pc), "pc-unchanged-by-handler")
	zzvt.Assert(in.Registers[rd] == zzRef2(op, a), "result")
	zzCheckFrame(in, regs, 5, rd)
}

// ZZ_C01_step_two_reg: A.5.9 (r_D = ζ[ı+1] mod 16, r_A = ζ[ı+1]/16) end to end.
//zz:workers=4
func ZZ_C01_step_two_reg() { zzStepTwoReg(false) }

// ZZ_C02_step_two_reg: single-step engine.
//zz:workers=4
func ZZ_C02_step_two_reg() { zzStepTwoReg(true) }

func zzStepTwoRegImm(single bool) {
	pc := 1
	n := zzvt.Range("n", pc+1, pc+8)
	op := zzPick(154, 147) // neg_add_imm_64 (ν_X - ω_B), cmov_iz_imm
	w := zzWindow(n, pc, op)
	regs := zzSymRegs()
	in := w.interp(regs, 5)
	ra, rb := zzMin12(w.z(pc+1)%16), zzMin12(w.z(pc+1)>>4)
	lx := zzClampLen(int(w.ell) - 1)
	vx := w.imm(pc+2, lx)
	b, d := regs[rb], regs[ra]
	exit, npc := w.run(in, single)
	zzvt.Assert(exit == ExitContinue, "exit-continue")
	zzvt.Assert(npc == ProgramCounter(pc), "pc-unchanged-by-handler")
	zzvt.Assert(in.Registers[ra] == zzRef2i(op, b, vx, d), "result")
	zzCheckFrame(in, regs, 5, ra)
}

// ZZ_C01_step_two_reg_imm: A.5.10 end to end: l_X = min(4, max(0, ℓ-1)), sign-extended
// immediate from ζ, every skip length 0..min(24, bytes to end - 1). Bound: 1..8 bytes to the end.
//zz:workers=8
func ZZ_C01_step_two_reg_imm() { zzStepTwoRegImm(false) }

// ZZ_C02_step_two_reg_imm: single-step engine.
//zz:workers=8
func ZZ_C02_step_two_reg_imm() { zzStepTwoRegImm(true) }

func zzStepLoadImm(single bool) {
	pc := 1
	op := zzPick(20, 51)
	hi := pc + 7
	if op == 20 {
		hi = pc + 11
	}
	n := zzvt.Range("n", pc+1, hi)
	w := zzWindow(n, pc, op)
	regs := zzSymRegs()
	in := w.interp(regs, 5)
	ra := zzMin12(w.z(pc+1) % 16)
	var vx uint64
	if op == 20 {
		for i := 0; i < 8; i++ {
			vx |= uint64(w.z(pc+2+i)) << (8 * uint(i))
		}
	} else {
		vx = w.imm(pc+2, zzClampLen(int(w.ell)-1))
	}
	exit, npc := w.run(in, single)
	zzvt.Assert(exit == ExitContinue, "exit-continue")
	zzvt.Assert(npc == ProgramCounter(pc), "pc-unchanged-by-handler")
	zzvt.Assert(in.Registers[ra] == vx, "result")
	zzCheckFrame(in, regs, 5, ra)
}

// ZZ_C01_step_load_imm: load_imm_64 (A.5.3) and load_imm (A.5.6) end to end.
//zz:workers=8
func ZZ_C01_step_load_imm() { zzStepLoadImm(false) }

// ZZ_C02_step_load_imm: single-step engine.
//zz:workers=8
func ZZ_C02_step_load_imm() { zzStepLoadImm(true) }

func zzStepEcalli(single bool) {
	pc := 1
	n := zzvt.Range("n", pc+1, pc+7)
	w := zzWindow(n, pc, 10)
	regs := zzSymRegs()
	in := w.interp(regs, 5)
	vx := w.imm(pc+1, zzClampLen(int(w.ell)))
	exit, npc := w.run(in, single)
	zzvt.Assert(exit.GetReasonType() == HOST_CALL, "exit-host-call")
	// ν_X is X_l of at most four bytes, so its low 32 bits determine it
	zzvt.Assert(uint32(exit) == uint32(vx), "host-call-identifier")
	zzvt.Assert(npc == ProgramCounter(pc), "pc-unchanged-by-handler")
	zzCheckFrame(in, regs, 5, 0xFF)
}

// ZZ_C01_step_ecalli: ecalli (A.5.2): l_X = min(4, ℓ), host-call exit carrying ν_X.
//zz:workers=4
func ZZ_C01_step_ecalli() { zzStepEcalli(false) }

// ZZ_C02_step_ecalli: single-step engine.
//zz:workers=4
func ZZ_C02_step_ecalli() { zzStepEcalli(true) }
