package validator

import (
	"github.com/New-JAMneration/JAM-Protocol/internal/types"
	"github.com/New-JAMneration/JAM-Protocol/internal/zzvt"
)

func zzKey(name string) types.Ed25519Public {
	var k types.Ed25519Public
	zzvt.FillBytes(name, k[:])
	return k
}

// ZZ_C29_initiator: for every pair of 32-byte keys both peers compute the same preferred
// initiator and it is one of the two keys. Bound: none (all 2^512 pairs).
func ZZ_C29_initiator() {
	a, b := zzKey("a"), zzKey("b")
	p1 := PreferredInitiator(a, b)
	p2 := PreferredInitiator(b, a)
	zzvt.Assert(p1 == p2, "initiator-symmetric")
	zzvt.Assert(zzvt.Or(p1 == a, p1 == b), "initiator-is-one-of-the-keys")
}

// zzIsqrt: floor(sqrt(n)) by integer search (independent of math.Sqrt).
func zzIsqrt(n int) int {
	w := 0
	for (w+1)*(w+1) <= n {
		w++
	}
	return w
}

func zzGrid(n int) *GridMapper {
	g := &GridMapper{Current: make(types.ValidatorsData, n)}
	return g
}

func zzPairRef(n, a, b int) bool {
	if n == 0 || a < 0 || b < 0 || a >= n || b >= n || a == b {
		return false
	}
	w := zzIsqrt(n)
	if w < 1 {
		w = 1
	}
	return zzvt.Or(a/w == b/w, a%w == b%w)
}

func zzPair(nmax int) {
	n := zzvt.Range("n", 0, nmax)
	g := zzGrid(n)
	a, b := zzvt.Int("a"), zzvt.Int("b")
	ab := g.IsNeighborInEpoch(a, b)
	ba := g.IsNeighborInEpoch(b, a)
	zzvt.Assert(ab == ba, "neighbour-symmetric")
	zzvt.Assert(!g.IsNeighborInEpoch(a, a), "neighbour-irreflexive")
	zzvt.Assert(ab == zzPairRef(n, a, b), "neighbour-iff-same-row-or-column")
}

// ZZ_C29_pair: the neighbour relation for every validator count 0..40 and every pair of
// (64-bit signed) indices: symmetric, irreflexive, exactly "same row or same column of the
// floor(sqrt(n))-wide grid".
//zz:workers=4
func ZZ_C29_pair() { zzPair(40) }

// ZZ_C29_pair_full: validator counts up to 1023 (the full protocol's validator count).
//zz:tier=thorough workers=16 conccap=1024 paths=200000
func ZZ_C29_pair_full() { zzPair(1023) }

// ZZ_C29_list: the neighbour list of every index equals {i | neighbour(index, i)} in ascending
// order, followed by the same index of the previous and next epoch where it exists.
// Bound: validator counts 0..9, previous/next set sizes 0..9.
//zz:workers=8
func ZZ_C29_list() {
	n := zzvt.Range("n", 0, 9)
	np := zzvt.Range("nprev", 0, 2) * 4 // 0, 4, 8
	nn := zzvt.Range("nnext", 0, 2) * 4
	g := zzGrid(n)
	g.Previous = make(types.ValidatorsData, np)
	g.Next = make(types.ValidatorsData, nn)
	for i := range g.Current {
		g.Current[i].Ed25519[0] = byte(1 + i)
	}
	for i := range g.Previous {
		g.Previous[i].Ed25519[0] = byte(101 + i)
	}
	for i := range g.Next {
		g.Next[i].Ed25519[0] = byte(201 + i)
	}
	index := zzvt.Int("index")
	idx := g.NeighborIndicesInEpoch(index)
	// expected list
	var want []int
	if index >= 0 && index < n {
		for i := 0; i < n; i++ {
			if zzPairRef(n, index, i) {
				want = append(want, i)
			}
		}
	}
	zzvt.Assert(len(idx) == len(want), "list-length")
	for i := range want {
		if i < len(idx) {
			zzvt.Assert(idx[i] == want[i], "list-element")
		}
	}
	all := g.AllNeighborValidators(index)
	if index < 0 {
		zzvt.Assert(len(all) == 0, "negative-index-has-no-neighbours")
		return
	}
	exp := len(want)
	if index < np {
		exp++
	}
	if index < nn {
		exp++
	}
	zzvt.Assert(len(all) == exp, "all-neighbours-length")
	if len(all) == exp {
		for i := range want {
			zzvt.Assert(all[i].Ed25519[0] == byte(1+want[i]), "all-neighbours-current")
		}
		k := len(want)
		if index < np {
			zzvt.Assert(all[k].Ed25519[0] == byte(101+index), "all-neighbours-previous")
			k++
		}
		if index < nn {
			zzvt.Assert(all[k].Ed25519[0] == byte(201+index), "all-neighbours-next")
		}
	}
}

// ZZ_C29_manager: ValidatorManager.IsNeighbor(key) for a key of the current set is the grid
// relation of (self, index of key); for a key outside it, "same index in previous/next epoch".
//zz:workers=4
func ZZ_C29_manager() {
	n := zzvt.Range("n", 1, 6)
	g := zzGrid(n)
	g.Previous = make(types.ValidatorsData, n)
	g.Next = make(types.ValidatorsData, n)
	for i := 0; i < n; i++ {
		g.Current[i].Ed25519[0] = byte(1 + i)
		g.Previous[i].Ed25519[0] = byte(101 + i)
		g.Next[i].Ed25519[0] = byte(201 + i)
	}
	self := zzvt.Int("self")
	zzvt.Assume(self >= 0 && self < n)
	var key types.Ed25519Public
	key[0] = zzvt.U8("k0")
	vm := &ValidatorManager{Grid: g, SelfIndex: self}
	got := vm.IsNeighbor(key)
	k := int(key[0])
	var want bool
	switch {
	case k >= 1 && k <= n:
		want = zzPairRef(n, self, k-1)
	case k >= 101 && k <= 100+n:
		want = k-101 == self
	case k >= 201 && k <= 200+n:
		want = k-201 == self
	}
	zzvt.Assert(got == want, "manager-is-neighbour")
}
