package statistics

import (
	"github.com/New-JAMneration/JAM-Protocol/internal/blockchain"
	"github.com/New-JAMneration/JAM-Protocol/internal/types"
	"github.com/New-JAMneration/JAM-Protocol/internal/zzvt"
)

func zzRec(tag string) types.ValidatorActivityRecord {
	return types.ValidatorActivityRecord{
		Blocks: types.U32(zzvt.U32(tag + "B")), Tickets: types.U32(zzvt.U32(tag + "T")),
		PreImages: types.U32(zzvt.U32(tag + "P")), PreImagesSize: types.U32(zzvt.U32(tag + "D")),
		Guarantees: types.U32(zzvt.U32(tag + "G")), Assurances: types.U32(zzvt.U32(tag + "A")),
	}
}

func zzValIdx(tag string) types.ValidatorIndex {
	v := zzvt.U16(tag)
	zzvt.Assume(int(v) < types.ValidatorsCount)
	return types.ValidatorIndex(v)
}

func zzB(c bool) types.U32 { return types.U32(zzvt.Ite64(c, 1, 0)) }

// zzValidators: validator set whose i-th Ed25519 key starts with byte base+perm(i).
func zzValidators(base byte, shift int) types.ValidatorsData {
	v := make(types.ValidatorsData, types.ValidatorsCount)
	for i := range v {
		v[i].Ed25519[0] = base + byte((i+shift)%types.ValidatorsCount)
		v[i].Ed25519[1] = 0x77
	}
	return v
}

// ZZ_C34_validators: one statistics step (13.3-13.5) from arbitrary current/previous
// validator records, arbitrary prior and posterior slots (posterior later), an arbitrary author,
// 0 or 2 tickets, 0 or 2 preimages (1 and 3 octets), 0..2 assurances by arbitrary validators: at an
// epoch change the previous records become the prior current ones and the current ones restart
// from zero, otherwise both are carried; the author gains one block, the ticket count, the
// preimage count and octets; each assurer gains one per assurance; nobody else changes.
//zz:workers=8
func ZZ_C34_validators() {
	cs := blockchain.ZZFresh()
	V := types.ValidatorsCount
	cur, last := make(types.ValidatorsStatistics, V), make(types.ValidatorsStatistics, V)
	refCur, refLast := make([]types.ValidatorActivityRecord, V), make([]types.ValidatorActivityRecord, V)
	for i := 0; i < V; i++ {
		cur[i], last[i] = zzRec("cur"), zzRec("last")
		refCur[i], refLast[i] = cur[i], last[i]
	}
	preTau, postTau := types.TimeSlot(zzvt.U32("preTau")), types.TimeSlot(zzvt.U32("postTau"))
	zzvt.Assume(postTau > preTau)
	cs.GetPriorStates().SetPi(types.Statistics{ValsCurr: cur, ValsLast: last})
	cs.GetPriorStates().SetTau(preTau)
	cs.GetPosteriorStates().SetTau(postTau)
	cs.GetPosteriorStates().SetKappa(zzValidators(1, 0))
	cs.GetPosteriorStates().SetLambda(zzValidators(1, 2))

	author := types.ValidatorIndex(zzvt.Range("author", 0, types.ValidatorsCount-1))
	var ext types.Extrinsic
	nt := 2 * zzvt.Range("tickets", 0, 1)
	ext.Tickets = make(types.TicketsExtrinsic, nt)
	np := 2 * zzvt.Range("preimages", 0, 1)
	octets := 0
	for i := 0; i < np; i++ {
		l := 1 + 2*i
		octets += l
		ext.Preimages = append(ext.Preimages, types.Preimage{Requester: types.ServiceID(zzvt.U32("req")), Blob: zzvt.Bytes("blob", l)})
	}
	na := zzvt.Range("assurances", 0, 2)
	assurers := make([]types.ValidatorIndex, na)
	for i := 0; i < na; i++ {
		assurers[i] = zzValIdx("assurer")
		bf := make(types.Bitfield, types.CoresCount)
		for c := range bf {
			bf[c] = zzvt.U8("bit") & 1
		}
		ext.Assurances = append(ext.Assurances, types.AvailAssurance{ValidatorIndex: assurers[i], Bitfield: bf})
	}
	blockchain.ZZSetLatestBlock(types.Block{Header: types.Header{Slot: postTau, AuthorIndex: author}, Extrinsic: ext})

	UpdateValidatorActivityStatistics()

	post := cs.GetPosteriorStates().GetPi()
	sameEpoch := uint32(preTau)/uint32(types.EpochLength) == uint32(postTau)/uint32(types.EpochLength)
	zzvt.Assert(len(post.ValsCurr) == V, "current-records-length")
	zzvt.Assert(len(post.ValsLast) == V, "previous-records-length")
	if len(post.ValsCurr) != V || len(post.ValsLast) != V {
		return
	}
	for v := 0; v < V; v++ {
		base, wantLast := refCur[v], refLast[v]
		if !sameEpoch {
			base, wantLast = types.ValidatorActivityRecord{}, refCur[v]
		}
		isAuthor := int(author) == v
		want := base
		want.Blocks += zzB(isAuthor)
		want.Tickets += zzB(isAuthor) * types.U32(nt)
		want.PreImages += zzB(isAuthor) * types.U32(np)
		want.PreImagesSize += zzB(isAuthor) * types.U32(octets)
		for _, a := range assurers {
			want.Assurances += zzB(int(a) == v)
		}
		got := post.ValsCurr[v]
		zzvt.Assert(got.Blocks == want.Blocks, "blocks")
		zzvt.Assert(got.Tickets == want.Tickets, "tickets")
		zzvt.Assert(got.PreImages == want.PreImages, "preimages")
		zzvt.Assert(got.PreImagesSize == want.PreImagesSize, "preimage-octets")
		zzvt.Assert(got.Assurances == want.Assurances, "assurances")
		zzvt.Assert(got.Guarantees == want.Guarantees, "guarantees-unchanged-without-reports")
		zzvt.Assert(post.ValsLast[v] == wantLast, "previous-records")
	}
}

// ZZ_C34_guarantors: the guarantee counter. One guarantee signed by two arbitrary validators,
// or two guarantees (signers 0 and 1, then one arbitrary signer), reported in the current or the previous rotation (which selects the
// current or, across an epoch boundary, the previous validator set): validator v of the
// posterior current set gains exactly one when its Ed25519 key is the key of a signer, else
// nothing, however many reports it signed.
//zz:workers=8
func ZZ_C34_guarantors() {
	zzvt.ConcreteHashes() // the core assignment (a shuffle of fixed entropy) is not the subject
	cs := blockchain.ZZFresh()
	V := types.ValidatorsCount
	cur := make(types.ValidatorsStatistics, V)
	ref := make([]types.U32, V)
	for i := 0; i < V; i++ {
		cur[i].Guarantees = types.U32(zzvt.U32("g"))
		ref[i] = cur[i].Guarantees
	}
	// slot layout: E=12, R=4 (tiny): pick the posterior slot class
	slotClass := zzvt.Range("slotClass", 0, 2)
	postTau := [3]types.TimeSlot{24, 25, 30}[slotClass] // epoch start, first rotation of an epoch, later rotation
	preTau := postTau - 1
	kappa, lambda := zzValidators(1, 0), zzValidators(1, 2)
	cs.GetPriorStates().SetPi(types.Statistics{ValsCurr: cur, ValsLast: make(types.ValidatorsStatistics, V)})
	cs.GetPriorStates().SetTau(preTau)
	cs.GetPosteriorStates().SetTau(postTau)
	cs.GetPosteriorStates().SetKappa(kappa)
	cs.GetPosteriorStates().SetLambda(lambda)

	ng := zzvt.Range("guarantees", 1, 2)
	var ext types.Extrinsic
	type sig struct {
		prevRotation bool
		idx          types.ValidatorIndex
	}
	var sigs []sig
	for i := 0; i < ng; i++ {
		prev := zzvt.Bool("previousRotation")
		slot := postTau
		if prev {
			slot = postTau - types.TimeSlot(types.RotationPeriod)
		}
		g := types.ReportGuarantee{Slot: slot}
		g.Report.CoreIndex = types.CoreIndex(i)
		// one guarantee: two arbitrary signers; two guarantees: signers 0 and 1 on the first,
		// one arbitrary signer on the second (it may repeat a signer of the first)
		var idxs []types.ValidatorIndex
		switch {
		case ng == 1:
			idxs = []types.ValidatorIndex{types.ValidatorIndex(zzvt.Range("signer", 0, V-1)), types.ValidatorIndex(zzvt.Range("signer", 0, V-1))}
		case i == 0:
			idxs = []types.ValidatorIndex{0, 1}
		default:
			idxs = []types.ValidatorIndex{types.ValidatorIndex(zzvt.Range("signer", 0, V-1))}
		}
		for _, idx := range idxs {
			g.Signatures = append(g.Signatures, types.ValidatorSignature{ValidatorIndex: idx})
			sigs = append(sigs, sig{prev, idx})
		}
		ext.Guarantees = append(ext.Guarantees, g)
	}
	blockchain.ZZSetLatestBlock(types.Block{Header: types.Header{Slot: postTau, AuthorIndex: 0}, Extrinsic: ext})

	UpdateValidatorActivityStatistics()

	post := cs.GetPosteriorStates().GetPi()
	zzvt.Assert(len(post.ValsCurr) == V, "current-records-length")
	if len(post.ValsCurr) != V {
		return
	}
	// the previous rotation lies in the previous epoch iff (tau'-R)/E != tau'/E
	prevEpoch := (int(postTau)-types.RotationPeriod)/types.EpochLength != int(postTau)/types.EpochLength
	sameEpoch := int(preTau)/types.EpochLength == int(postTau)/types.EpochLength
	for v := 0; v < V; v++ {
		reporter := false
		for _, s := range sigs {
			set := kappa
			if s.prevRotation && prevEpoch {
				set = lambda
			}
			for j := 0; j < V; j++ {
				reporter = zzvt.Or(reporter, zzvt.And(int(s.idx) == j, set[j].Ed25519 == kappa[v].Ed25519))
			}
		}
		base := ref[v]
		if !sameEpoch {
			base = 0
		}
		zzvt.Assert(post.ValsCurr[v].Guarantees == base+zzB(reporter), "guarantees")
	}
}

// ZZ_C34_cores: core records (13.8-13.10) for 0..2 incoming reports with 0..2 results each,
// 0..2 newly available reports and 0..2 assurances: every core's record is the sum of the
// refine loads of the incoming report on that core plus its bundle size, the DA load of the
// newly available report on that core, and the number of assurances with the core's bit set.
//zz:workers=8
func ZZ_C34_cores() {
	cs := blockchain.ZZFresh()
	C := types.CoresCount
	cs.GetPriorStates().SetPi(types.Statistics{ValsCurr: make(types.ValidatorsStatistics, types.ValidatorsCount), ValsLast: make(types.ValidatorsStatistics, types.ValidatorsCount)})
	cs.GetPriorStates().SetTau(5)
	cs.GetPosteriorStates().SetTau(6)
	cs.GetPosteriorStates().SetKappa(zzValidators(1, 0))
	cs.GetPosteriorStates().SetLambda(zzValidators(1, 2))

	mkReport := func(core int, tag string) types.WorkReport {
		r := types.WorkReport{CoreIndex: types.CoreIndex(core)}
		r.PackageSpec.Length = types.U32(zzvt.U32(tag + "Len"))
		r.PackageSpec.ExportsCount = types.U16(zzvt.U16(tag + "Exports"))
		nr := zzvt.Range(tag+"Results", 0, 2)
		for k := 0; k < nr; k++ {
			var w types.WorkResult
			w.ServiceID = types.ServiceID(zzvt.U32(tag + "Svc"))
			w.RefineLoad.GasUsed = types.Gas(zzvt.U64(tag + "Gas"))
			w.RefineLoad.Imports = types.U16(zzvt.U16(tag + "Imp"))
			w.RefineLoad.ExtrinsicCount = types.U16(zzvt.U16(tag + "XC"))
			w.RefineLoad.ExtrinsicSize = types.U32(zzvt.U32(tag + "XS"))
			w.RefineLoad.Exports = types.U16(zzvt.U16(tag + "Exp"))
			r.Results = append(r.Results, w)
		}
		return r
	}
	// which cores carry an incoming / a newly available report
	inMask, avMask := zzvt.Range("incomingMask", 0, 3), zzvt.Range("availableMask", 0, 3)
	incoming, available := map[int]types.WorkReport{}, map[int]types.WorkReport{}
	var w, W []types.WorkReport
	for c := C - 1; c >= 0; c-- { // listed in descending core order: the order must not matter
		if inMask>>c&1 == 1 {
			incoming[c] = mkReport(c, "in")
			w = append(w, incoming[c])
		}
		if avMask>>c&1 == 1 {
			available[c] = mkReport(c, "av")
			W = append(W, available[c])
		}
	}
	cs.GetIntermediateStates().SetPresentWorkReports(w)
	cs.GetIntermediateStates().SetAvailableWorkReports(W)
	na := zzvt.Range("assurances", 0, 2)
	var ext types.Extrinsic
	for i := 0; i < na; i++ {
		bf := make(types.Bitfield, C)
		for c := range bf {
			bf[c] = zzvt.U8("bit") & 1
		}
		ext.Assurances = append(ext.Assurances, types.AvailAssurance{ValidatorIndex: types.ValidatorIndex(i), Bitfield: bf})
	}
	blockchain.ZZSetLatestBlock(types.Block{Header: types.Header{Slot: 6}, Extrinsic: ext})

	UpdateValidatorActivityStatistics()

	got := cs.GetPosteriorStates().GetCoresStatistics()
	zzvt.Assert(len(got) == C, "one-record-per-core")
	if len(got) != C {
		return
	}
	for c := 0; c < C; c++ {
		var want types.CoreActivityRecord
		if r, ok := incoming[c]; ok {
			for _, res := range r.Results {
				want.Imports += res.RefineLoad.Imports
				want.ExtrinsicCount += res.RefineLoad.ExtrinsicCount
				want.ExtrinsicSize += res.RefineLoad.ExtrinsicSize
				want.Exports += res.RefineLoad.Exports
				want.GasUsed += res.RefineLoad.GasUsed
			}
			want.BundleSize = r.PackageSpec.Length
		}
		if r, ok := available[c]; ok {
			// D = l + W_G * ceil(65 n / 64)
			n := uint32(r.PackageSpec.ExportsCount)
			want.DALoad = r.PackageSpec.Length + types.U32(types.SegmentSize)*types.U32((n*65+63)/64)
		}
		for _, a := range ext.Assurances {
			want.Popularity += types.U16(a.Bitfield[c])
		}
		g := got[c]
		zzvt.Assert(g.Imports == want.Imports, "core-imports")
		zzvt.Assert(g.ExtrinsicCount == want.ExtrinsicCount, "core-extrinsic-count")
		zzvt.Assert(g.ExtrinsicSize == want.ExtrinsicSize, "core-extrinsic-size")
		zzvt.Assert(g.Exports == want.Exports, "core-exports")
		zzvt.Assert(g.GasUsed == want.GasUsed, "core-gas")
		zzvt.Assert(g.BundleSize == want.BundleSize, "core-bundle-size")
		zzvt.Assert(g.DALoad == want.DALoad, "core-da-load")
		zzvt.Assert(g.Popularity == want.Popularity, "core-popularity")
	}
}

// ZZ_C34_services: service records (13.11-13.16) for one incoming report with 0..2 results
// (arbitrary, possibly equal service ids), 0..2 preimages and 0..1 accumulation-statistics
// entries: the record set is exactly the union of the three service sets and each record holds
// the sums of the contributions carrying that service id.
//zz:workers=8
func ZZ_C34_services() {
	cs := blockchain.ZZFresh()
	cs.GetPriorStates().SetPi(types.Statistics{ValsCurr: make(types.ValidatorsStatistics, types.ValidatorsCount), ValsLast: make(types.ValidatorsStatistics, types.ValidatorsCount)})
	cs.GetPriorStates().SetTau(5)
	cs.GetPosteriorStates().SetTau(6)
	cs.GetPosteriorStates().SetKappa(zzValidators(1, 0))
	cs.GetPosteriorStates().SetLambda(zzValidators(1, 2))

	var ids []types.ServiceID
	rep := types.WorkReport{}
	nr := zzvt.Range("results", 0, 2)
	for k := 0; k < nr; k++ {
		var w types.WorkResult
		w.ServiceID = types.ServiceID(zzvt.U32("resSvc"))
		w.RefineLoad.GasUsed = types.Gas(zzvt.U64("gas"))
		w.RefineLoad.Imports = types.U16(zzvt.U16("imp"))
		w.RefineLoad.ExtrinsicCount = types.U16(zzvt.U16("xc"))
		w.RefineLoad.ExtrinsicSize = types.U32(zzvt.U32("xs"))
		w.RefineLoad.Exports = types.U16(zzvt.U16("exp"))
		rep.Results = append(rep.Results, w)
		ids = append(ids, w.ServiceID)
	}
	if nr > 0 {
		cs.GetIntermediateStates().SetPresentWorkReports([]types.WorkReport{rep})
	}
	var ext types.Extrinsic
	np := zzvt.Range("preimages", 0, 2)
	for i := 0; i < np; i++ {
		p := types.Preimage{Requester: types.ServiceID(zzvt.U32("preSvc")), Blob: zzvt.Bytes("blob", zzvt.Range("blobLen", 0, 2))}
		ext.Preimages = append(ext.Preimages, p)
		ids = append(ids, p.Requester)
	}
	acc := types.AccumulationStatistics{}
	var accID types.ServiceID
	var accVal types.GasAndNumAccumulatedReports
	hasAcc := zzvt.Bool("hasAccumulation")
	if hasAcc {
		accID = types.ServiceID(zzvt.U32("accSvc"))
		accVal = types.GasAndNumAccumulatedReports{Gas: types.Gas(zzvt.U64("accGas")), NumAccumulatedReports: types.U64(zzvt.U32("accN"))}
		acc[accID] = accVal
		ids = append(ids, accID)
	}
	cs.GetIntermediateStates().SetAccumulationStatistics(acc)
	blockchain.ZZSetLatestBlock(types.Block{Header: types.Header{Slot: 6}, Extrinsic: ext})

	UpdateValidatorActivityStatistics()

	got := cs.GetPosteriorStates().GetServicesStatistics()
	// every contributing service has a record with the right sums
	for _, s := range ids {
		g, ok := got[s]
		zzvt.Assert(ok, "service-has-record")
		if !ok {
			continue
		}
		var want types.ServiceActivityRecord
		for _, res := range rep.Results {
			m := res.ServiceID == s
			want.RefinementCount += zzB(m)
			want.RefinementGasUsed += types.Gas(zzvt.Ite64(m, uint64(res.RefineLoad.GasUsed), 0))
			want.Imports += types.U32(zzvt.Ite64(m, uint64(res.RefineLoad.Imports), 0))
			want.ExtrinsicCount += types.U32(zzvt.Ite64(m, uint64(res.RefineLoad.ExtrinsicCount), 0))
			want.ExtrinsicSize += types.U32(zzvt.Ite64(m, uint64(res.RefineLoad.ExtrinsicSize), 0))
			want.Exports += types.U32(zzvt.Ite64(m, uint64(res.RefineLoad.Exports), 0))
		}
		for _, p := range ext.Preimages {
			m := p.Requester == s
			want.ProvidedCount += types.U16(zzvt.Ite64(m, 1, 0))
			want.ProvidedSize += types.U32(zzvt.Ite64(m, uint64(len(p.Blob)), 0))
		}
		if hasAcc {
			m := accID == s
			want.AccumulateCount = types.U32(zzvt.Ite64(m, uint64(accVal.NumAccumulatedReports), 0))
			want.AccumulateGasUsed = types.Gas(zzvt.Ite64(m, uint64(accVal.Gas), 0))
		}
		zzvt.Assert(g.RefinementCount == want.RefinementCount, "service-refinement-count")
		zzvt.Assert(g.RefinementGasUsed == want.RefinementGasUsed, "service-refinement-gas")
		zzvt.Assert(g.Imports == want.Imports, "service-imports")
		zzvt.Assert(g.ExtrinsicCount == want.ExtrinsicCount, "service-extrinsic-count")
		zzvt.Assert(g.ExtrinsicSize == want.ExtrinsicSize, "service-extrinsic-size")
		zzvt.Assert(g.Exports == want.Exports, "service-exports")
		zzvt.Assert(g.ProvidedCount == want.ProvidedCount, "service-provided-count")
		zzvt.Assert(g.ProvidedSize == want.ProvidedSize, "service-provided-size")
		zzvt.Assert(g.AccumulateCount == want.AccumulateCount, "service-accumulate-count")
		zzvt.Assert(g.AccumulateGasUsed == want.AccumulateGasUsed, "service-accumulate-gas")
	}
	// and nobody else has one
	for s := range got {
		member := false
		for _, id := range ids {
			member = zzvt.Or(member, id == s)
		}
		zzvt.Assert(member, "no-record-without-contribution")
	}
}
