package work_package

import (
	"github.com/New-JAMneration/JAM-Protocol/internal/types"
	"github.com/New-JAMneration/JAM-Protocol/internal/utilities/hash"
	"github.com/New-JAMneration/JAM-Protocol/internal/utilities/merkle_tree"
	"github.com/New-JAMneration/JAM-Protocol/internal/zzvt"
)

// ZZ_C32_digest: the work digest C (14.8) for every work item with 0..3 import specs, 0..3
// extrinsic specs of arbitrary 32-bit lengths, any export count, payload of 0..3 bytes, any
// outcome and gas: service, code hash, payload hash, accumulate gas and result are the item's;
// the refine load is (gas used, number of imports, number of extrinsics, total extrinsic size,
// number of exports) - each field checked separately.
//zz:workers=8
func ZZ_C32_digest() {
	var item types.WorkItem
	item.Service = types.ServiceID(zzvt.U32("service"))
	zzvt.FillBytes("codeHash", item.CodeHash[:2])
	item.RefineGasLimit = types.Gas(zzvt.U64("refineGas"))
	item.AccumulateGasLimit = types.Gas(zzvt.U64("accumulateGas"))
	item.ExportCount = types.U16(zzvt.U16("exportCount"))
	item.Payload = zzvt.Bytes("payload", zzvt.Range("payloadLen", 0, 3))
	item.ImportSegments = make([]types.ImportSpec, zzvt.Range("imports", 0, 3))
	item.Extrinsic = make([]types.ExtrinsicSpec, zzvt.Range("extrinsics", 0, 3))
	var total uint64
	for i := range item.Extrinsic {
		item.Extrinsic[i].Len = types.U32(zzvt.U32("extrinsicLen"))
		total += uint64(item.Extrinsic[i].Len)
	}
	zzvt.Assume(total < 1<<32) // the total extrinsic size is a 32-bit field (bundles are far smaller)
	var result types.WorkExecResult
	gas := types.Gas(zzvt.U64("gasUsed"))
	d := C(item, result, gas)
	zzvt.Assert(d.ServiceID == item.Service && d.CodeHash == item.CodeHash, "service-and-code-hash")
	zzvt.Assert(d.PayloadHash == hash.Blake2bHash(item.Payload), "payload-hash")
	zzvt.Assert(d.AccumulateGas == item.AccumulateGasLimit, "accumulate-gas")
	zzvt.Assert(d.RefineLoad.GasUsed == gas, "load-gas-used")
	zzvt.Assert(int(d.RefineLoad.Imports) == len(item.ImportSegments), "load-import-count")
	zzvt.Assert(int(d.RefineLoad.ExtrinsicCount) == len(item.Extrinsic), "load-extrinsic-count")
	zzvt.Assert(uint64(d.RefineLoad.ExtrinsicSize) == total, "load-total-extrinsic-size")
	zzvt.Assert(d.RefineLoad.Exports == item.ExportCount, "load-export-count")
}

// ZZ_C32_spec: the package specification A (14.16) for bundles of 1..3 bytes and 0..2 export
// segments: hash passed through, length = bundle length, export count = number of segments,
// exports root = constant-depth Merkle root of the segments (erasure coding is environment).
//zz:workers=4
func ZZ_C32_spec() {
	var wph types.OpaqueHash
	zzvt.FillBytes("packageHash", wph[:2])
	bundle := zzvt.Bytes("bundle", zzvt.Range("bundleLen", 1, 3))
	exports := make([]types.ExportSegment, zzvt.Range("exports", 0, 2))
	var blobs []types.ByteSequence
	for i := range exports {
		exports[i][0] = zzvt.U8("segmentByte")
		blobs = append(blobs, types.ByteSequence(exports[i][:]))
	}
	spec, err := A(wph, bundle, exports)
	zzvt.Assert(err == nil, "specification-computed")
	zzvt.Assert(spec.Hash == types.WorkPackageHash(wph), "package-hash")
	zzvt.Assert(int(spec.Length) == len(bundle), "bundle-length")
	zzvt.Assert(int(spec.ExportsCount) == len(exports), "export-count")
	zzvt.Assert(types.OpaqueHash(spec.ExportsRoot) == merkle_tree.M(blobs, hash.Blake2bHash), "exports-root")
}
