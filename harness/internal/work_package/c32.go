package work_package

import (
	"github.com/New-JAMneration/JAM-Protocol/PVM"
	"github.com/New-JAMneration/JAM-Protocol/internal/types"
	"github.com/New-JAMneration/JAM-Protocol/internal/utilities/hash"
	"github.com/New-JAMneration/JAM-Protocol/internal/utilities/merkle_tree"
	"github.com/New-JAMneration/JAM-Protocol/internal/zzvt"
)

// ZZ_C32_digest: the work digest C (14.8) for every work item with 0..3 import specs, 0..3
// extrinsic specs of arbitrary 32-bit lengths, any export count, payload of 0..3 bytes, any
// outcome and gas: service, code hash, payload hash, accumulate gas and result are the item's;
// the refine load is (gas used, number of imports, number of extrinsics, total extrinsic size,
// number of exports) - each field checked separately.
//zz:workers=8
func ZZ_C32_digest() {
	var item types.WorkItem
	item.Service = types.ServiceID(zzvt.U32("service"))
	zzvt.FillBytes("codeHash", item.CodeHash[:2])
	item.RefineGasLimit = types.Gas(zzvt.U64("refineGas"))
	item.AccumulateGasLimit = types.Gas(zzvt.U64("accumulateGas"))
	item.ExportCount = types.U16(zzvt.U16("exportCount"))
	item.Payload = zzvt.Bytes("payload", zzvt.Range("payloadLen", 0, 3))
	item.ImportSegments = make([]types.ImportSpec, zzvt.Range("imports", 0, 3))
	item.Extrinsic = make([]types.ExtrinsicSpec, zzvt.Range("extrinsics", 0, 3))
	var total uint64
	for i := range item.Extrinsic {
		item.Extrinsic[i].Len = types.U32(zzvt.U32("extrinsicLen"))
		total += uint64(item.Extrinsic[i].Len)
	}
	zzvt.Assume(total < 1<<32) // the total extrinsic size is a 32-bit field (bundles are far smaller)
	var result types.WorkExecResult
	gas := types.Gas(zzvt.U64("gasUsed"))
	d := C(item, result, gas)
	zzvt.Assert(d.ServiceID == item.Service && d.CodeHash == item.CodeHash, "service-and-code-hash")
	zzvt.Assert(d.PayloadHash == hash.Blake2bHash(item.Payload), "payload-hash")
	zzvt.Assert(d.AccumulateGas == item.AccumulateGasLimit, "accumulate-gas")
	zzvt.Assert(d.RefineLoad.GasUsed == gas, "load-gas-used")
	zzvt.Assert(int(d.RefineLoad.Imports) == len(item.ImportSegments), "load-import-count")
	zzvt.Assert(int(d.RefineLoad.ExtrinsicCount) == len(item.Extrinsic), "load-extrinsic-count")
	zzvt.Assert(uint64(d.RefineLoad.ExtrinsicSize) == total, "load-total-extrinsic-size")
	zzvt.Assert(d.RefineLoad.Exports == item.ExportCount, "load-export-count")
}

// ZZ_C32_spec: the package specification A (14.16) for bundles of 1..3 bytes and 0..2 export
// segments: hash passed through, length = bundle length, export count = number of segments,
// exports root = constant-depth Merkle root of the segments (erasure coding is environment).
//zz:workers=4
func ZZ_C32_spec() {
	var wph types.OpaqueHash
	zzvt.FillBytes("packageHash", wph[:2])
	bundle := zzvt.Bytes("bundle", zzvt.Range("bundleLen", 1, 3))
	exports := make([]types.ExportSegment, zzvt.Range("exports", 0, 2))
	var blobs []types.ByteSequence
	for i := range exports {
		exports[i][0] = zzvt.U8("segmentByte")
		blobs = append(blobs, types.ByteSequence(exports[i][:]))
	}
	spec, err := A(wph, bundle, exports)
	zzvt.Assert(err == nil, "specification-computed")
	zzvt.Assert(spec.Hash == types.WorkPackageHash(wph), "package-hash")
	zzvt.Assert(int(spec.Length) == len(bundle), "bundle-length")
	zzvt.Assert(int(spec.ExportsCount) == len(exports), "export-count")
	zzvt.Assert(types.OpaqueHash(spec.ExportsRoot) == merkle_tree.M(blobs, hash.Blake2bHash), "exports-root")
}

// zzExec is a refinement environment: it returns whatever the harness chose.
type zzExec struct{ out PVM.RefineOutput }

func (e *zzExec) Psi_I(p types.WorkPackage, c types.CoreIndex, code types.ByteSequence) PVM.Psi_I_ReturnType {
	return PVM.Psi_I_ReturnType{}
}
func (e *zzExec) RefineInvoke(input PVM.RefineInput) PVM.RefineOutput { return e.out }

// ZZ_C32_item: the per-item result I (14.11) with refinement as an environment that returns
// any outcome (ok / panic / out-of-gas), 0..2 output bytes, 0..2 exported segments and any
// gas, for an item declaring 0..2 exports and an accumulated output size at, just below and far
// below the report limit: oversize and wrong export counts and failed refinements all yield
// the declared number of zero segments (so that later items keep their segment offsets),
// a successful one yields its own exports; the result kind and the gas are passed on.
//zz:workers=8
func ZZ_C32_item() {
	declared := zzvt.Range("declaredExports", 0, 2)
	var wp types.WorkPackage
	wp.Items = []types.WorkItem{{ExportCount: types.U16(declared)}}
	kind := []types.WorkExecResultType{types.WorkExecResultOk, types.WorkExecResultPanic, types.WorkExecResultOutOfGas}[zzvt.Range("outcome", 0, 2)]
	r := zzvt.Bytes("output", zzvt.Range("outputLen", 0, 2))
	exported := make([]types.ExportSegment, zzvt.Range("exported", 0, 2))
	for i := range exported {
		exported[i][0] = zzvt.U8("segment") | 1
	}
	gas := types.Gas(zzvt.U64("gas"))
	rSum := []int{0, types.WorkReportOutputBlobsMaximumSize - 1, types.WorkReportOutputBlobsMaximumSize}[zzvt.Range("priorOutput", 0, 2)]
	ex := &zzExec{PVM.RefineOutput{WorkResult: kind, RefineOutput: r, ExportSegment: exported, Gas: gas}}
	res, u, segs := I(wp, 0, nil, nil, nil, nil, ex, rSum, 0)
	zzvt.Assert(u == gas, "gas-passed-on")
	oversize := len(r)+rSum > types.WorkReportOutputBlobsMaximumSize
	zeros := func() {
		zzvt.Assert(len(segs) == declared, "failed-item-yields-the-declared-number-of-segments")
		for _, s := range segs {
			zzvt.Assert(s == types.ExportSegment{}, "failed-item-yields-zero-segments")
		}
	}
	switch {
	case oversize:
		zzvt.Assert(res.Type == types.WorkExecResultReportOversize, "oversize-result")
		zeros()
	case len(exported) != declared:
		zzvt.Assert(res.Type == types.WorkExecResultBadExports, "bad-exports-result")
		zeros()
	case kind != types.WorkExecResultOk:
		zzvt.Assert(res.Type == kind, "failure-kind-passed-on")
		zeros()
	default:
		zzvt.Assert(res.Type == types.WorkExecResultOk && zzvt.EqBytes(res.Data, r), "ok-result-carries-the-output")
		zzvt.Assert(len(segs) == declared, "ok-item-yields-its-exports")
		for i := range segs {
			if i < len(exported) {
				zzvt.Assert(segs[i] == exported[i], "ok-item-yields-its-exports")
			}
		}
	}
}
