package mmr

import (
	"github.com/New-JAMneration/JAM-Protocol/internal/types"
	"github.com/New-JAMneration/JAM-Protocol/internal/utilities/hash"
	"github.com/New-JAMneration/JAM-Protocol/internal/zzvt"
)

// zzH is the merge hash: an uninterpreted function of the 64 input bytes.
func zzH(in types.ByteSequence) types.OpaqueHash { return types.OpaqueHash(zzvt.Hash32("K", in)) }

func zzSymHash(name string) *types.OpaqueHash {
	var h types.OpaqueHash
	zzvt.FillBytes(name, h[:])
	return &h
}

// zzPeaks builds a peak list of length n with every nil / non-nil pattern (one path per
// pattern) and symbolic hashes, in a backing array with `spare` unused capacity.
func zzPeaks(n, spare int) []types.MmrPeak {
	backing := make([]types.MmrPeak, n, n+spare)
	for i := 0; i < n; i++ {
		if zzvt.Bool("present") {
			backing[i] = zzSymHash("peak")
		}
	}
	return backing
}

// zzRefP is E.8: P(r, l, n).
func zzRefP(r []types.MmrPeak, l types.MmrPeak, n int) []types.MmrPeak {
	out := append([]types.MmrPeak(nil), r...)
	if n >= len(r) {
		return append(out, l)
	}
	if r[n] == nil {
		out[n] = l
		return out
	}
	out[n] = nil
	in := append(append([]byte{}, (*r[n])[:]...), (*l)[:]...)
	h := zzH(in)
	return zzRefP(out, &h, n+1)
}

func zzSamePeaks(a, b []types.MmrPeak) bool {
	if len(a) != len(b) {
		return false
	}
	ok := true
	for i := range a {
		if (a[i] == nil) != (b[i] == nil) {
			return false
		}
		if a[i] != nil {
			ok = zzvt.And(ok, *a[i] == *b[i])
		}
	}
	return ok
}

type zzSnap struct {
	ptrs []types.MmrPeak
	vals []types.OpaqueHash
}

func zzSnapshot(p []types.MmrPeak) zzSnap {
	full := p[:cap(p)]
	s := zzSnap{ptrs: append([]types.MmrPeak(nil), full...), vals: make([]types.OpaqueHash, len(full))}
	for i, q := range full {
		if q != nil {
			s.vals[i] = *q
		}
	}
	return s
}

func (s zzSnap) unchanged(p []types.MmrPeak) bool {
	full := p[:cap(p)]
	ok := len(full) == len(s.ptrs)
	for i := range s.ptrs {
		if full[i] != s.ptrs[i] {
			return false
		}
		if s.ptrs[i] != nil {
			ok = zzvt.And(ok, *full[i] == s.vals[i])
		}
	}
	return ok
}

// ZZ_C19_append: AppendOne equals the Gray Paper append A(r,l) = P(r,l,0) peak by peak, for
// every peak list of length 0..5 with every nil/non-nil pattern and every hash value, and
// neither the list handed in (including its spare capacity) nor the hashes it points to are
// modified. Merge hash = uninterpreted function.
//zz:workers=8
func ZZ_C19_append() {
	n := zzvt.Range("n", 0, 5)
	spare := zzvt.Range("spare", 0, 1) * 3
	peaks := zzPeaks(n, spare)
	snap := zzSnapshot(peaks)
	l := zzSymHash("leaf")
	m := NewMMRFromPeaks(peaks, zzH)
	got := m.AppendOne(l)
	want := zzRefP(peaks[:n], l, 0)
	zzvt.Assert(zzSamePeaks(got, want), "append-equals-gray-paper")
	zzvt.Assert(snap.unchanged(peaks), "input-peak-list-not-modified")
}

// ZZ_C19_history: a list returned by one append is not modified by the next append.
//zz:workers=8
func ZZ_C19_history() {
	n := zzvt.Range("n", 0, 4)
	peaks := zzPeaks(n, 0)
	m := NewMMRFromPeaks(peaks, zzH)
	r1 := m.AppendOne(zzSymHash("leaf1"))
	snap := zzSnapshot(r1)
	l2 := zzSymHash("leaf2")
	want := zzRefP(r1, l2, 0)
	r2 := m.AppendOne(l2)
	zzvt.Assert(zzSamePeaks(r2, want), "second-append-equals-gray-paper")
	zzvt.Assert(snap.unchanged(r1), "previously-returned-list-not-modified")
}

// ZZ_C19_count: induction on the item count c (0..31): if peak i is present exactly when bit
// i of c is set (and the list has no trailing empty peaks), the same holds for c+1 after one
// append.
//zz:workers=4
func ZZ_C19_count() {
	c := zzvt.Range("count", 0, 31)
	var peaks []types.MmrPeak
	for i := 0; (c >> uint(i)) != 0; i++ {
		if (c>>uint(i))&1 == 1 {
			peaks = append(peaks, zzSymHash("peak"))
		} else {
			peaks = append(peaks, nil)
		}
	}
	m := NewMMRFromPeaks(peaks, zzH)
	got := m.AppendOne(zzSymHash("leaf"))
	c1 := c + 1
	wantLen := 0
	for (c1 >> uint(wantLen)) != 0 {
		wantLen++
	}
	zzvt.Assert(len(got) == wantLen, "peak-list-length-is-bit-length-of-count")
	for i := 0; i < len(got) && i < wantLen; i++ {
		zzvt.Assert((got[i] != nil) == ((c1>>uint(i))&1 == 1), "peak-present-iff-bit-set")
	}
}

// zzRefSuperPeak is E.10 on the non-empty peaks.
func zzRefSuperPeak(h []types.MmrPeak) types.OpaqueHash {
	switch len(h) {
	case 0:
		return types.OpaqueHash{}
	case 1:
		return *h[0]
	}
	rest := zzRefSuperPeak(h[:len(h)-1])
	in := append(append([]byte("peak"), rest[:]...), (*h[len(h)-1])[:]...)
	return hash.KeccakHash(in)
}

// ZZ_C19_superpeak: SuperPeak equals E.10 for every peak list of length 0..5 with every
// nil pattern (Keccak = uninterpreted function).
//zz:workers=8
func ZZ_C19_superpeak() {
	n := zzvt.Range("n", 0, 5)
	peaks := zzPeaks(n, 0)
	var h []types.MmrPeak
	for _, p := range peaks {
		if p != nil {
			h = append(h, p)
		}
	}
	snap := zzSnapshot(peaks)
	got := NewMMRFromPeaks(peaks, zzH).SuperPeak(peaks)
	zzvt.Assert(got == zzRefSuperPeak(h), "superpeak-equals-gray-paper")
	zzvt.Assert(snap.unchanged(peaks), "superpeak-does-not-modify-peaks")
}
