package shuffle

import (
	"github.com/New-JAMneration/JAM-Protocol/internal/types"
	hashUtil "github.com/New-JAMneration/JAM-Protocol/internal/utilities/hash"
	"github.com/New-JAMneration/JAM-Protocol/internal/zzvt"
)

func zzU32s(name string, n int) []types.U32 {
	out := make([]types.U32, n)
	for i := range out {
		out[i] = types.U32(zzvt.U32(name))
	}
	return out
}

// zzRefFY is F.1 on copies.
func zzRefFY(s, r []types.U32) []types.U32 {
	l := len(s)
	if l == 0 {
		return nil
	}
	idx := r[0] % types.U32(l)
	head := s[idx]
	rest := append([]types.U32(nil), s...)
	rest[idx] = s[l-1]
	return append([]types.U32{head}, zzRefFY(rest[:l-1], r[1:])...)
}

func zzFY(nmax int) {
	n := zzvt.Range("n", 0, nmax)
	s := zzU32s("s", n)
	r := zzU32s("r", n)
	in := append([]types.U32(nil), s...)
	want := zzRefFY(in, r)
	got := FisherYatesShuffle(s, r)
	zzvt.Assert(len(got) == n, "length")
	if len(got) == n {
		for i := range got {
			zzvt.Assert(got[i] == want[i], "equals-gray-paper-F1")
		}
	}
}

// ZZ_C20_fy: FisherYatesShuffle equals F.1 for every sequence of length 0..6 and every
// random sequence (all 32-bit values).
//zz:workers=8
func ZZ_C20_fy() { zzFY(6) }

// ZZ_C20_fy_long: lengths up to 10.
//zz:tier=thorough workers=16
func ZZ_C20_fy_long() { zzFY(10) }

// ZZ_C20_perm: the result is a permutation: shuffling 0..n-1 with any random sequence
// yields every value exactly once (n <= 6).
//zz:workers=8
func ZZ_C20_perm() {
	n := zzvt.Range("n", 0, 6)
	s := make([]types.U32, n)
	for i := range s {
		s[i] = types.U32(i)
	}
	got := FisherYatesShuffle(s, zzU32s("r", n))
	zzvt.Assert(len(got) == n, "length")
	for v := 0; v < n; v++ {
		var cnt uint64
		for _, g := range got {
			cnt += zzvt.Ite64(g == types.U32(v), 1, 0)
		}
		zzvt.Assert(cnt == 1, "each-input-occurs-exactly-once")
	}
}

// ZZ_C20_seq: numericSequenceFromHash equals F.2 for lengths 0..17 (two hash blocks are
// crossed at 8 and 16); Blake2b = uninterpreted function.
//zz:workers=4
func ZZ_C20_seq() {
	l := zzvt.Range("l", 0, 17)
	var h types.OpaqueHash
	zzvt.FillBytes("entropy", h[:])
	got := numericSequenceFromHash(h, types.U32(l))
	zzvt.Assert(len(got) == l, "length")
	for i := 0; i < l && i < len(got); i++ {
		blk := uint32(i / 8)
		in := append(append([]byte{}, h[:]...), byte(blk), byte(blk>>8), byte(blk>>16), byte(blk>>24))
		out := hashUtil.Blake2bHash(in)
		o := (4 * i) % 32
		want := uint32(out[o]) | uint32(out[o+1])<<8 | uint32(out[o+2])<<16 | uint32(out[o+3])<<24
		zzvt.Assert(uint32(got[i]) == want, "equals-gray-paper-F2")
	}
}

// ZZ_C20_shuffle: Shuffle(s, h) = F(s, Q_|s|(h)) for lengths 0..5.
//zz:workers=8
func ZZ_C20_shuffle() {
	n := zzvt.Range("n", 0, 5)
	s := zzU32s("s", n)
	var h types.OpaqueHash
	zzvt.FillBytes("entropy", h[:])
	want := zzRefFY(append([]types.U32(nil), s...), numericSequenceFromHash(h, types.U32(n)))
	got := Shuffle(s, h)
	zzvt.Assert(len(got) == n, "length")
	if len(got) == n {
		for i := range got {
			zzvt.Assert(got[i] == want[i], "equals-gray-paper-F3")
		}
	}
}

// zzRefShuffle is F.1/F.2 with E_4 of the block counter, for concrete entropy.
func zzRefShuffle(s []types.U32, h types.OpaqueHash) []types.U32 {
	n := len(s)
	r := make([]uint32, n)
	for i := 0; i < n; i++ {
		pre := append(append([]byte{}, h[:]...), byte(i/8), byte((i/8)>>8), byte((i/8)>>16), byte((i/8)>>24))
		d := hashUtil.Blake2bHash(pre)
		j := 4 * (i % 8)
		r[i] = uint32(d[j]) | uint32(d[j+1])<<8 | uint32(d[j+2])<<16 | uint32(d[j+3])<<24
	}
	work := append([]types.U32{}, s...)
	out := make([]types.U32, 0, n)
	for i := 0; i < n; i++ {
		l := len(work)
		idx := int(r[i] % uint32(l))
		out = append(out, work[idx])
		work[idx] = work[l-1]
		work = work[:l-1]
	}
	return out
}

// ZZ_C20_long: sequences of 1026..1040 elements (more than 128 blocks of eight random
// numbers, where the four-octet block counter has a non-zero second octet in a
// variable-length encoding) with two fixed entropies and real digests: Shuffle equals the
// F.1/F.2 reference. All inputs are concrete: this harness is a differential run, not a
// symbolic one; it exists because the other C20 harnesses keep the length below 10.
//zz:workers=4
func ZZ_C20_long() {
	zzvt.ConcreteHashes()
	n := 1026 + 7*zzvt.Range("len", 0, 2)
	var h types.OpaqueHash
	h[0], h[31] = byte(0x11*(1+zzvt.Range("entropy", 0, 1))), 0xEE
	s := make([]types.U32, n)
	for i := range s {
		s[i] = types.U32(i)
	}
	want := zzRefShuffle(s, h)
	got := Shuffle(append([]types.U32{}, s...), h) // Shuffle permutes its argument in place
	zzvt.Assert(len(got) == n, "length-kept")
	ok := len(got) == n
	for i := 0; ok && i < n; i++ {
		ok = got[i] == want[i]
	}
	zzvt.Assert(ok, "long-shuffle-equals-reference")
}
