package utilities

import (
	"github.com/New-JAMneration/JAM-Protocol/internal/types"
	"github.com/New-JAMneration/JAM-Protocol/internal/zzvt"
)

// ZZ_C12_legacy_enc: SerializeU64 is the canonical encoding for every 64-bit value.
func ZZ_C12_legacy_enc() {
	v := zzvt.U64("v")
	got := SerializeU64(types.U64(v))
	want, n := zzvt.RefNatEnc(v)
	zzvt.Assert(zzvt.EqBytes(got, want[:n]), "enc-canonical")
}

// ZZ_C12_legacy_dec: DeserializeU64 accepts only inputs that start with the canonical
// encoding of the value it returns (inputs of length 0..10).
func ZZ_C12_legacy_dec() {
	n := zzvt.Range("n", 0, 10)
	data := zzvt.Bytes("in", n)
	v, err := DeserializeU64(data)
	if err == nil {
		zzvt.Cover("accepted")
		zzvt.Assert(zzvt.IsRefNatPrefix(data, uint64(v)), "dec-accepts-only-canonical")
	}
}

// ZZ_C12_legacy_dec_complete: canonical encodings followed by junk decode to their value.
func ZZ_C12_legacy_dec_complete() {
	v := zzvt.U64("v")
	enc, n := zzvt.RefNatEnc(v)
	data := append(append([]byte{}, enc[:n]...), zzvt.Bytes("junk", 2)...)
	got, err := DeserializeU64(data)
	zzvt.Assert(err == nil, "dec-accepts-canonical")
	zzvt.Assert(uint64(got) == v, "dec-roundtrip")
}
