package merkle_tree

import (
	"github.com/New-JAMneration/JAM-Protocol/internal/types"
	"github.com/New-JAMneration/JAM-Protocol/internal/zzvt"
)

func zzH(in types.ByteSequence) types.OpaqueHash { return types.OpaqueHash(zzvt.Hash32("B", in)) }

// zzSeq builds n blobs: one-byte symbolic blobs, except one position (chosen per path) that
// is nil, empty, or two bytes long. One path per (position, kind).
func zzSeq(n int) []types.ByteSequence {
	v := make([]types.ByteSequence, n)
	for i := range v {
		v[i] = zzvt.Bytes("blob", 1)
	}
	if n > 0 {
		k := zzvt.Range("special", 0, n) // n = no special element
		if k < n {
			switch zzvt.Range("kind", 0, 2) {
			case 0:
				v[k] = nil
			case 1:
				v[k] = types.ByteSequence{}
			case 2:
				v[k] = zzvt.Bytes("blob2", 2)
			}
		}
	}
	return v
}

func zzCat(parts ...[]byte) []byte {
	var out []byte
	for _, p := range parts {
		out = append(out, p...)
	}
	return out
}

func zzHalf(n int) int { return (n + 1) / 2 }

// zzRefN is E.1: N(v, H).
func zzRefN(v []types.ByteSequence) []byte {
	switch len(v) {
	case 0:
		return make([]byte, 32)
	case 1:
		return v[0]
	}
	m := zzHalf(len(v))
	h := zzH(zzCat([]byte("node"), zzRefN(v[:m]), zzRefN(v[m:])))
	return h[:]
}

func zzRefMb(v []types.ByteSequence) types.OpaqueHash {
	if len(v) == 1 {
		return zzH(v[0])
	}
	var out types.OpaqueHash
	copy(out[:], zzRefN(v))
	return out
}

func zzRefC(v []types.ByteSequence) []types.ByteSequence {
	sz := 1
	for sz < len(v) {
		sz *= 2
	}
	out := make([]types.ByteSequence, sz)
	for i := range out {
		if i < len(v) {
			h := zzH(zzCat([]byte("leaf"), v[i]))
			out[i] = h[:]
		} else {
			out[i] = make([]byte, 32)
		}
	}
	return out
}

func zzRefM(v []types.ByteSequence) types.OpaqueHash {
	var out types.OpaqueHash
	copy(out[:], zzRefN(zzRefC(v)))
	return out
}

// zzRefT is E.5: T(v, i, H) with the split at ceil(|v|/2), the same as N's.
func zzRefT(v []types.ByteSequence, i int) [][]byte {
	if len(v) <= 1 {
		return nil
	}
	m := zzHalf(len(v))
	if i < m {
		return append([][]byte{zzRefN(v[m:])}, zzRefT(v[:m], i)...)
	}
	return append([][]byte{zzRefN(v[:m])}, zzRefT(v[m:], i-m)...)
}

// zzFold recomputes the root of a tree of n leaves from leaf i and its trace.
func zzFold(n, i int, trace []types.ByteSequence, leaf []byte) []byte {
	if n <= 1 {
		return leaf
	}
	if len(trace) == 0 {
		return nil
	}
	m := zzHalf(n)
	var l, r []byte
	if i < m {
		l, r = zzFold(m, i, trace[1:], leaf), trace[0]
	} else {
		l, r = trace[0], zzFold(n-m, i-m, trace[1:], leaf)
	}
	h := zzH(zzCat([]byte("node"), l, r))
	return h[:]
}

// ZZ_C18_roots: N, Mb, C and M equal their E.1 definitions for every sequence of 0..9 blobs
// (one-byte blobs with one nil / empty / two-byte element at every position); hash =
// uninterpreted function passed as hashFunc.
//zz:workers=8
func ZZ_C18_roots() {
	n := zzvt.Range("n", 0, 9)
	v := zzSeq(n)
	zzvt.Assert(zzvt.EqBytes(N(v, zzH), zzRefN(v)), "N-equals-gray-paper")
	zzvt.Assert(Mb(v, zzH) == zzRefMb(v), "Mb-equals-gray-paper")
	zzvt.Assert(M(v, zzH) == zzRefM(v), "M-equals-gray-paper")
	c, rc := C(v, zzH), zzRefC(v)
	zzvt.Assert(len(c) == len(rc), "C-length")
	if len(c) == len(rc) {
		for i := range c {
			zzvt.Assert(zzvt.EqBytes(c[i][:], rc[i]), "C-element")
		}
	}
}

// ZZ_C18_trace: for every length 1..9 and every index, T(v,i) equals E.5 and folding it
// from leaf i reproduces N(v).
//zz:workers=8
func ZZ_C18_trace() {
	n := zzvt.Range("n", 1, 9)
	v := make([]types.ByteSequence, n)
	for i := range v {
		v[i] = zzvt.Bytes("blob", 1)
	}
	i := zzvt.Range("i", 0, n-1)
	tr := T(v, types.U32(i), zzH)
	want := zzRefT(v, i)
	zzvt.Assert(len(tr) == len(want), "trace-length")
	if len(tr) == len(want) {
		for k := range tr {
			zzvt.Assert(zzvt.EqBytes(tr[k], want[k]), "trace-element")
		}
	}
	zzvt.Assert(zzvt.EqBytes(zzFold(n, i, tr, v[i]), zzRefN(v)), "trace-folds-to-root")
}

// ZZ_C18_pages: Jx and Lx for every length 0..9, page exponent x in 0..3 and page index:
// Lx is exactly the hashed leaves of the page, Jx has length max(0, ceil(log2 max(1,n)) - x)
// and folding it from the root of the page reproduces M(v).
//zz:workers=8
func ZZ_C18_pages() {
	n := zzvt.Range("n", 0, 9)
	x := zzvt.Range("x", 0, 3)
	v := make([]types.ByteSequence, n)
	for i := range v {
		v[i] = zzvt.Bytes("blob", 1)
	}
	pages := (n + (1 << uint(x)) - 1) >> uint(x)
	if pages == 0 {
		pages = 1
	}
	i := zzvt.Range("page", 0, pages-1)
	// Lx
	l := Lx(types.U8(x), v, types.U32(i), zzH)
	lo := i << uint(x)
	hi := lo + (1 << uint(x))
	if hi > n {
		hi = n
	}
	if lo > n {
		lo = n
	}
	zzvt.Assert(len(l) == hi-lo, "page-leaf-count")
	if len(l) == hi-lo {
		for k := range l {
			zzvt.Assert(l[k] == zzH(zzCat([]byte("leaf"), v[lo+k])), "page-leaf-hash")
		}
	}
	// Jx
	j := Jx(types.U8(x), v, types.U32(i), zzH)
	lg := 0
	for (1 << uint(lg)) < n {
		lg++
	}
	wantLen := lg - x
	if wantLen < 0 {
		wantLen = 0
	}
	zzvt.Assert(len(j) == wantLen, "justification-length")
	if len(j) == wantLen {
		c := zzRefC(v)
		tr := zzRefT(c, i<<uint(x))
		for k := 0; k < wantLen && k < len(tr); k++ {
			zzvt.Assert(zzvt.EqBytes(j[k][:], tr[k]), "justification-element")
		}
	}
}
