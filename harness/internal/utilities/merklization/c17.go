package merklization

import (
	"github.com/New-JAMneration/JAM-Protocol/internal/types"
	"github.com/New-JAMneration/JAM-Protocol/internal/utilities/hash"
	"github.com/New-JAMneration/JAM-Protocol/internal/zzvt"
)

// zzWellFormedState: every fixed-length component has its protocol length; contents are
// zero except for a few arbitrary bytes and counters.
func zzWellFormedState() types.State {
	var s types.State
	V, C, E := types.ValidatorsCount, types.CoresCount, types.EpochLength
	s.Alpha = make(types.AuthPools, C)
	s.Alpha[0] = types.AuthPool{types.AuthorizerHash{zzvt.U8("alpha")}}
	s.Varphi = make(types.AuthQueues, C)
	for c := range s.Varphi {
		s.Varphi[c] = make(types.AuthQueue, types.AuthQueueSize)
	}
	s.Varphi[C-1][3][0] = zzvt.U8("varphi")
	s.Beta.History = types.BlocksHistory{{HeaderHash: types.HeaderHash{zzvt.U8("beta")}}}
	first := types.OpaqueHash{zzvt.U8("peak")}
	s.Beta.Mmr.Peaks = []types.MmrPeak{nil, &first}
	s.Gamma.GammaK = make(types.ValidatorsData, V)
	s.Gamma.GammaK[1].Bandersnatch[0] = zzvt.U8("gammaK")
	s.Gamma.GammaS.Keys = make([]types.BandersnatchPublic, E)
	s.Gamma.GammaA = types.TicketsAccumulator{{Attempt: 1}}
	s.Psi.Good = []types.WorkReportHash{{zzvt.U8("good")}}
	s.Psi.Offenders = []types.Ed25519Public{{zzvt.U8("offender")}}
	s.Eta[2][5] = zzvt.U8("eta")
	s.Iota, s.Kappa, s.Lambda = make(types.ValidatorsData, V), make(types.ValidatorsData, V), make(types.ValidatorsData, V)
	s.Kappa[2].Ed25519[0] = zzvt.U8("kappa")
	s.Rho = make(types.AvailabilityAssignments, C)
	s.Tau = types.TimeSlot(zzvt.U32("tau"))
	s.Chi.Bless = types.ServiceID(zzvt.U32("bless"))
	s.Chi.Assign = make(types.ServiceIDList, C)
	s.Chi.AlwaysAccum = types.AlwaysAccumulateMap{7: 9}
	s.Pi.ValsCurr, s.Pi.ValsLast = make(types.ValidatorsStatistics, V), make(types.ValidatorsStatistics, V)
	s.Pi.ValsCurr[0].Blocks = types.U32(zzvt.U32("blocks"))
	s.Pi.Cores = make(types.CoresStatistics, C)
	s.Vartheta = make(types.ReadyQueue, E)
	s.Xi = make(types.AccumulatedQueue, E)
	s.Theta = types.LastAccOut{{ServiceID: 3, Hash: types.OpaqueHash{zzvt.U8("theta")}}}
	s.Delta = types.ServiceAccountState{}
	return s
}

// zzService: an account with up to one storage entry, one preimage with its lookup entry,
// one lookup entry without preimage (a request), all with arbitrary content bytes.
func zzService(tag string, symbolicPreimage bool) types.ServiceAccount {
	a := types.ServiceAccount{
		PreimageLookup: types.PreimagesMapEntry{}, LookupDict: types.LookupMetaMapEntry{}, StorageDict: types.Storage{},
	}
	a.ServiceInfo.CodeHash[0] = zzvt.U8(tag + "code")
	a.ServiceInfo.Balance = types.U64(zzvt.U64(tag + "balance"))
	a.ServiceInfo.Items = types.U32(zzvt.U32(tag + "items"))
	a.ServiceInfo.Bytes = types.U64(zzvt.U64(tag + "bytes"))
	a.ServiceInfo.CreationSlot = types.TimeSlot(zzvt.U32(tag + "created"))
	if zzvt.Bool(tag + "HasStorage") {
		a.StorageDict["k"+tag] = types.ByteSequence{zzvt.U8(tag + "sv"), 2}
		if zzvt.Bool(tag + "HasStorage2") {
			a.StorageDict[""] = types.ByteSequence{}
		}
	}
	if zzvt.Bool(tag + "HasPreimage") {
		p := types.ByteSequence{0x31, 7, tag[0]}
		if symbolicPreimage {
			p[0] = zzvt.U8(tag + "pre")
		}
		h := hash.Blake2bHash(p)
		a.PreimageLookup[h] = p
		if zzvt.Bool(tag + "PreimageHasLookup") {
			set := types.TimeSlotSet{}
			if zzvt.Bool(tag + "LookupHasSlot") { // an attributed lookup may carry an empty slot set
				set = types.TimeSlotSet{types.TimeSlot(zzvt.U32(tag + "slot"))}
			}
			a.LookupDict[types.LookupMetaMapkey{Hash: h, Length: 3}] = set
		}
	}
	if zzvt.Bool(tag + "HasRequest") {
		var h types.OpaqueHash
		h[0], h[9] = 0x44, 0x33
		a.LookupDict[types.LookupMetaMapkey{Hash: h, Length: 9}] = types.TimeSlotSet{}
	}
	return a
}

// zzSubset: every key-value of a occurs in b (formula, no branching on contents).
func zzSubset(a, b types.StateKeyVals) bool {
	all := true
	for _, x := range a {
		found := false
		for _, y := range b {
			found = zzvt.Or(found, zzvt.And(x.Key == y.Key, zzvt.EqBytes(x.Value, y.Value)))
		}
		all = zzvt.And(all, found)
	}
	return all
}

func zzRoundTrip(s types.State, withRoot bool) {
	kvs, err := StateEncoder(s)
	zzvt.Assert(err == nil, "state-serialises")
	if err != nil {
		return
	}
	// feed the key-values in reverse order
	in := make(types.StateKeyVals, len(kvs))
	for i := range kvs {
		in[len(kvs)-1-i] = kvs[i]
	}
	parsed, raw, err := StateKeyValsToState(in)
	zzvt.Assert(err == nil, "key-values-parse")
	if err != nil {
		return
	}
	again, err := StateEncoder(parsed)
	zzvt.Assert(err == nil, "parsed-state-serialises")
	if err != nil {
		return
	}
	merged := append(append(types.StateKeyVals{}, again...), raw...)
	zzvt.Assert(len(merged) == len(kvs), "same-number-of-key-values")
	zzvt.Assert(zzSubset(kvs, merged), "every-original-key-value-survives")
	zzvt.Assert(zzSubset(merged, kvs), "no-key-value-invented")
	// equal key-value sets have equal roots (order independence of the root is C15); the root
	// itself is recomputed only where every key is concrete
	if withRoot && len(merged) == len(kvs) {
		zzvt.Assert(MerklizationSerializedState(merged) == MerklizationSerializedState(kvs), "same-state-root")
	}
}

// ZZ_C17_components: export/import round trip of a well-formed state without services.
func ZZ_C17_components() { zzRoundTrip(zzWellFormedState(), true) }

// ZZ_C17_service: the same with one service (fixed id) holding any combination of a storage
// entry (two incl. empty key and value), a preimage with or without its lookup entry, and a
// lookup request without preimage. Keys and the preimage are fixed (their digests are the real
// ones), values and service-info fields are arbitrary.
//zz:workers=8 paths=20000 violations=200
func ZZ_C17_service() {
	zzvt.ConcreteHashes()
	s := zzWellFormedState()
	s.Delta[types.ServiceID(0x01020304)] = zzService("a", false)
	zzRoundTrip(s, true)
}

// ZZ_C17_service_sym: one service whose preimage has an arbitrary first byte (state keys become
// symbolic digests; every order the serialiser can sort them in is a path).
//zz:tier=thorough workers=16 paths=200000
func ZZ_C17_service_sym() {
	s := zzWellFormedState()
	s.Delta[types.ServiceID(0x01020304)] = zzService("a", true)
	zzRoundTrip(s, false)
}

// ZZ_C17_two_services: two services with ids that differ in one byte.
//zz:workers=8 paths=200000 violations=200
func ZZ_C17_two_services() {
	zzvt.ConcreteHashes()
	s := zzWellFormedState()
	s.Delta[types.ServiceID(0x01020304)] = zzService("a", false)
	s.Delta[types.ServiceID(0x01020305)] = zzService("b", false)
	zzRoundTrip(s, true)
}
