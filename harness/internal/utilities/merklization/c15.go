package merklization

import (
	"github.com/New-JAMneration/JAM-Protocol/internal/types"
	"github.com/New-JAMneration/JAM-Protocol/internal/utilities/hash"
	"github.com/New-JAMneration/JAM-Protocol/internal/zzvt"
)

// zzKey: a 31-byte key whose bit 0 (top bit of byte 0) and the two low bits of byte lowIdx
// are arbitrary; keys therefore either split at the root or share a prefix of 8*lowIdx+6 bits.
func zzKey(lowIdx int) (k types.StateKey) {
	k[0] = zzvt.U8("keyTop")&0x80 | 0x15
	k[7] = 0xa5
	k[lowIdx] = k[lowIdx]&0xfc | zzvt.U8("keyLow")&0x03
	return
}

// zzValue: a value of length 0, 32 or 33 (1, 31 and 64 as well for up to two entries) with
// arbitrary first and last byte.
func zzValue(few bool) []byte {
	n := [6]int{0, 32, 33, 1, 31, 64}[zzvt.Range("valueLenClass", 0, map[bool]int{true: 5, false: 2}[few])]
	v := make([]byte, n)
	if n > 0 {
		v[0] = zzvt.U8("valueFirst")
		v[n-1] = zzvt.U8("valueLast")
	}
	return v
}

func zzBit(k types.StateKey, i int) bool { return k[i/8]>>(7-uint(i%8))&1 == 1 }

// zzRefLeaf / zzRefBranch / zzRefTrie: Gray Paper appendix D, written at the bit level.
func zzRefLeaf(k types.StateKey, v []byte) [64]byte {
	var bits [512]bool
	if len(v) <= 32 {
		bits[0], bits[1] = true, false
		for i := 0; i < 6; i++ { // the six low bits of |v|, most significant first
			bits[2+i] = len(v)>>(5-uint(i))&1 == 1
		}
		for i := 0; i < 248; i++ {
			bits[8+i] = zzBit(k, i)
		}
		for i := 0; i < 8*len(v); i++ {
			bits[256+i] = v[i/8]>>(7-uint(i%8))&1 == 1
		}
	} else {
		bits[0], bits[1] = true, true
		for i := 0; i < 248; i++ {
			bits[8+i] = zzBit(k, i)
		}
		h := hash.Blake2bHash(v)
		for i := 0; i < 256; i++ {
			bits[256+i] = h[i/8]>>(7-uint(i%8))&1 == 1
		}
	}
	return zzPack(bits)
}

// zzRefLeafBytes is the same leaf written at byte level (header byte from its bit fields); the
// trie harnesses use it so that reference and implementation hash syntactically equal nodes,
// ZZ_C15_leaf decides that it equals the bit-level zzRefLeaf.
func zzRefLeafBytes(k types.StateKey, v []byte) (out [64]byte) {
	if len(v) <= 32 {
		out[0] = 1<<7 | 0<<6 | byte(len(v))&0x3f
		copy(out[32:], v)
	} else {
		out[0] = 1<<7 | 1<<6
		h := hash.Blake2bHash(v)
		copy(out[32:], h[:])
	}
	copy(out[1:32], k[:])
	return
}

func zzPack(bits [512]bool) (out [64]byte) {
	for i := 0; i < 64; i++ {
		var b uint64
		for j := 0; j < 8; j++ {
			b = b<<1 | zzvt.Ite64(bits[8*i+j], 1, 0)
		}
		out[i] = byte(b)
	}
	return
}

func zzRefBranch(l, r types.OpaqueHash) (out [64]byte) {
	copy(out[:32], l[:])
	out[0] &= 0x7f // [0] followed by the last 255 bits of l
	copy(out[32:], r[:])
	return
}

func zzRefTrie(kvs []types.StateKeyVal, depth int) types.OpaqueHash {
	switch len(kvs) {
	case 0:
		return types.OpaqueHash{}
	case 1:
		n := zzRefLeafBytes(kvs[0].Key, kvs[0].Value)
		return hash.Blake2bHash(n[:])
	}
	var l, r []types.StateKeyVal
	for _, kv := range kvs {
		if zzBit(kv.Key, depth) {
			r = append(r, kv)
		} else {
			l = append(l, kv)
		}
	}
	n := zzRefBranch(zzRefTrie(l, depth+1), zzRefTrie(r, depth+1))
	return hash.Blake2bHash(n[:])
}

func zzEntries(n, lowIdx int) types.StateKeyVals {
	kvs := make(types.StateKeyVals, n)
	for i := range kvs {
		kvs[i] = types.StateKeyVal{Key: zzKey(lowIdx), Value: zzValue(n <= 2)}
		for j := 0; j < i; j++ {
			zzvt.Assume(kvs[i].Key != kvs[j].Key)
		}
	}
	return kvs
}

func zzTrieCheck(n, lowIdx int) {
	zzvt.HashAxioms(false) // reference and implementation hash syntactically equal nodes
	kvs := zzEntries(n, lowIdx)
	want := zzRefTrie(kvs, 0)
	got := MerklizationSerializedState(kvs)
	zzvt.Assert(types.OpaqueHash(got) == want, "root-is-appendix-D-trie-root")
	// any rotation / reversal of the input gives the same root, and the input is not modified
	rev := make(types.StateKeyVals, n)
	for i := range kvs {
		rev[n-1-i] = kvs[i]
	}
	zzvt.Assert(MerklizationSerializedState(rev) == got, "root-independent-of-order-reversed")
	if n > 2 {
		rot := append(append(types.StateKeyVals{}, kvs[1:]...), kvs[0])
		zzvt.Assert(MerklizationSerializedState(rot) == got, "root-independent-of-order-rotated")
	}
	// the cached variant without a cache and with a pass-through cache agree
	zzvt.Assert(MerklizationSerializedStateWithCache(kvs, nil) == got, "nil-cache-variant-agrees")
	pass := func(k types.StateKey, v []byte) types.OpaqueHash { return EncodeLeafNodeHash(k, v) }
	zzvt.Assert(MerklizationSerializedStateWithCache(rev, pass) == got, "pass-through-cache-variant-agrees")
}

// ZZ_C15_trie: for 0..3 entries with distinct keys (arbitrary in three key bits, so that keys
// split at the root or only after a 14-bit common prefix) and values of length 0, 1, 31, 32,
// 33 or 64 with arbitrary end bytes, the state root is the appendix-D trie root computed by a
// bit-level reference, independent of the input order.
//zz:workers=8 paths=20000
func ZZ_C15_trie() { zzTrieCheck(zzvt.Range("entries", 0, 3), 1) }

// ZZ_C15_trie_4: the same for four entries.
//zz:tier=thorough workers=16 paths=200000
func ZZ_C15_trie_4() { zzTrieCheck(4, 1) }

// ZZ_C15_trie_mid: two entries whose keys share a 38-bit prefix (beyond the first four key
// bytes) or split at the root.
//zz:workers=8 paths=20000
func ZZ_C15_trie_mid() { zzTrieCheck(2, 4) }

// ZZ_C15_trie_deep: two or three entries whose keys share a 246-bit prefix (the arbitrary low
// bits sit in the last key byte).
//zz:tier=thorough workers=16 paths=20000
func ZZ_C15_trie_deep() { zzTrieCheck(zzvt.Range("entries", 2, 3), 30) }

// ZZ_C15_leaf: leaf encoding for every value length 0..40 and arbitrary key/value bytes
// (two arbitrary bytes each).
func ZZ_C15_leaf() {
	var k types.StateKey
	zzvt.FillBytes("key", k[:2])
	k[30] = zzvt.U8("keyLast")
	n := zzvt.Range("len", 0, 40)
	v := make([]byte, n)
	if n > 0 {
		v[0], v[n-1] = zzvt.U8("v0"), zzvt.U8("vn")
	}
	got := encodeLeafNode(k, v)
	zzvt.Assert(got == zzRefLeaf(k, v), "leaf-encoding")
	zzvt.Assert(zzRefLeafBytes(k, v) == zzRefLeaf(k, v), "byte-level-reference-equals-bit-level-reference")
	var l, r types.OpaqueHash
	zzvt.FillBytes("l", l[:2])
	zzvt.FillBytes("r", r[:2])
	l[31], r[31] = zzvt.U8("l31"), zzvt.U8("r31")
	zzvt.Assert(encodeBranchNode(l, r) == zzRefBranch(l, r), "branch-encoding")
}
