package service_account

import (
	"github.com/New-JAMneration/JAM-Protocol/internal/types"
	"github.com/New-JAMneration/JAM-Protocol/internal/zzvt"
)

// zzI is B.16: I(l, t).
func zzI(l []types.TimeSlot, t types.TimeSlot) bool {
	switch len(l) {
	case 1:
		return l[0] <= t
	case 2:
		return zzvt.And(l[0] <= t, t < l[1])
	case 3:
		return zzvt.Or(zzvt.And(l[0] <= t, t < l[1]), l[2] <= t)
	}
	return false
}

// ZZ_C31_valid: the availability predicate for every record of length 0..4 and every time.
func ZZ_C31_valid() {
	n := zzvt.Range("n", 0, 4)
	l := make(types.TimeSlotSet, n)
	for i := range l {
		l[i] = types.TimeSlot(zzvt.U32("slot"))
	}
	t := types.TimeSlot(zzvt.U32("t"))
	zzvt.Assert(isValidTime(l, t) == zzI(l, t), "availability-intervals")
}

func zzHash1(name string) types.OpaqueHash {
	var h types.OpaqueHash
	h[0] = zzvt.U8(name)
	return h
}

// ZZ_C31_lookup: HistoricalLookup on an account with 0..2 preimages (hash keys differ in
// their first byte, blobs 0..2 bytes) and 0..2 lookup records of 0..3 slots: the blob is
// returned exactly when it is stored and t lies in an availability interval of the record
// filed under (hash, blob length).
//zz:workers=8
func ZZ_C31_lookup() {
	np := zzvt.Range("npre", 0, 2)
	nl := zzvt.Range("nlook", 0, 2)
	acc := types.ServiceAccount{PreimageLookup: types.PreimagesMapEntry{}, LookupDict: types.LookupMetaMapEntry{}}
	type pre struct {
		h types.OpaqueHash
		b []byte
	}
	type look struct {
		k types.LookupMetaMapkey
		l types.TimeSlotSet
	}
	var pres []pre
	var looks []look
	for i := 0; i < np; i++ {
		p := pre{zzHash1("ph"), zzvt.Bytes("blob", zzvt.Range("bloblen", 0, 2))}
		for _, q := range pres {
			zzvt.Assume(q.h != p.h)
		}
		pres = append(pres, p)
		acc.PreimageLookup[p.h] = p.b
	}
	for i := 0; i < nl; i++ {
		k := types.LookupMetaMapkey{Hash: zzHash1("lh"), Length: types.U32(zzvt.U8("llen"))}
		for _, q := range looks {
			zzvt.Assume(q.k != k)
		}
		ls := make(types.TimeSlotSet, zzvt.Range("nslots", 0, 3))
		for j := range ls {
			ls[j] = types.TimeSlot(zzvt.U32("slot"))
		}
		looks = append(looks, look{k, ls})
		acc.LookupDict[k] = ls
	}
	h := zzHash1("query")
	t := types.TimeSlot(zzvt.U32("t"))
	got := HistoricalLookup(acc, t, h)
	// oracle
	var want []byte
	found := false
	for _, p := range pres {
		if p.h == h {
			for _, l := range looks {
				if l.k.Hash == h && l.k.Length == types.U32(len(p.b)) && zzI(l.l, t) {
					want, found = p.b, true
				}
			}
		}
	}
	if found {
		zzvt.Assert(got != nil || len(want) == 0, "lookup-returns-available-preimage")
		zzvt.Assert(zzvt.EqBytes(got, want), "lookup-returns-the-stored-blob")
	} else {
		zzvt.Assert(got == nil, "lookup-returns-nothing-otherwise")
	}
}
