package recent_history

import (
	"github.com/New-JAMneration/JAM-Protocol/internal/types"
	"github.com/New-JAMneration/JAM-Protocol/internal/utilities/hash"
	merkle "github.com/New-JAMneration/JAM-Protocol/internal/utilities/merkle_tree"
	"github.com/New-JAMneration/JAM-Protocol/internal/utilities/mmr"
	"github.com/New-JAMneration/JAM-Protocol/internal/zzvt"
)

func zzHash(name string) (h types.OpaqueHash) {
	h[0] = zzvt.U8(name)
	h[31] = zzvt.U8(name)
	return
}

type zzEntry struct {
	hh, beefy, root types.OpaqueHash
	nrep            int
	rep0            types.OpaqueHash
}

// ZZ_C25_transition: one recent-history step (7.5-7.8) from every history of length 0..H=8
// with symbolic entries: the newest entry's state root becomes the parent state root, the new
// entry (header hash, zero state root, reported packages sorted by hash, commitment) is
// appended, the oldest entry is dropped when full, every other entry is unchanged.
// Bound: 0..3 guarantees.
//zz:workers=8
func ZZ_C25_transition() {
	H := types.MaxBlocksHistory
	n := zzvt.Range("n", 0, H)
	hist := make(types.BlocksHistory, n)
	ref := make([]zzEntry, n)
	for i := range hist {
		e := zzEntry{hh: zzHash("hh"), beefy: zzHash("beefy"), root: zzHash("root"), nrep: zzvt.Range("nrep", 0, 1)}
		hist[i] = types.BlockInfo{HeaderHash: types.HeaderHash(e.hh), BeefyRoot: e.beefy, StateRoot: types.StateRoot(e.root)}
		if e.nrep == 1 {
			e.rep0 = zzHash("rep")
			hist[i].Reported = []types.ReportedWorkPackage{{Hash: types.WorkReportHash(e.rep0)}}
		}
		ref[i] = e
	}
	parentRoot := zzHash("parentStateRoot")
	ng := zzvt.Range("guarantees", 0, 3)
	eg := make(types.GuaranteesExtrinsic, ng)
	for i := range eg {
		eg[i].Report.PackageSpec.Hash = types.WorkPackageHash(zzHash("pkg"))
		eg[i].Report.PackageSpec.ExportsRoot = types.ExportsRoot(zzHash("exports"))
	}
	headerHash, commitment := zzHash("headerHash"), zzHash("commitment")

	dagger := History2HistoryDagger(hist, types.StateRoot(parentRoot))
	reported := MapWorkReportFromEg(eg)
	item := NewItem(types.HeaderHash(headerHash), reported, commitment)
	out := AddItem2BetaHPrime(dagger, item)

	wantLen := n + 1
	drop := 0
	if wantLen > H {
		wantLen, drop = H, 1
	}
	zzvt.Assert(len(out) == wantLen, "history-length-at-most-H")
	if len(out) != wantLen {
		return
	}
	for i := drop; i < n; i++ {
		o, e := out[i-drop], ref[i]
		zzvt.Assert(o.HeaderHash == types.HeaderHash(e.hh), "old-entry-header-hash-unchanged")
		zzvt.Assert(o.BeefyRoot == e.beefy, "old-entry-commitment-unchanged")
		if i == n-1 {
			zzvt.Assert(o.StateRoot == types.StateRoot(parentRoot), "previous-newest-gets-parent-state-root")
		} else {
			zzvt.Assert(o.StateRoot == types.StateRoot(e.root), "old-entry-state-root-unchanged")
		}
		zzvt.Assert(len(o.Reported) == e.nrep, "old-entry-reported-unchanged")
		if e.nrep == 1 && len(o.Reported) == 1 {
			zzvt.Assert(o.Reported[0].Hash == types.WorkReportHash(e.rep0), "old-entry-reported-unchanged")
		}
	}
	last := out[wantLen-1]
	zzvt.Assert(last.HeaderHash == types.HeaderHash(headerHash), "new-entry-header-hash")
	zzvt.Assert(last.StateRoot == types.StateRoot{}, "new-entry-zero-state-root")
	zzvt.Assert(last.BeefyRoot == commitment, "new-entry-commitment")
	zzvt.Assert(len(last.Reported) == ng, "new-entry-reports-every-guarantee")
	if len(last.Reported) == ng {
		for i := 1; i < ng; i++ {
			a, b := last.Reported[i-1].Hash, last.Reported[i].Hash
			le := zzvt.Or(a[0] < b[0], zzvt.And(a[0] == b[0], a[31] <= b[31]))
			zzvt.Assert(le, "new-entry-reports-sorted-by-hash")
		}
		// same multiset: every guarantee occurs as often in the output as in the input
		for i := range eg {
			var cin, cout uint64
			for j := range eg {
				cin += zzvt.Ite64(zzvt.And(eg[j].Report.PackageSpec.Hash == eg[i].Report.PackageSpec.Hash, eg[j].Report.PackageSpec.ExportsRoot == eg[i].Report.PackageSpec.ExportsRoot), 1, 0)
			}
			for j := range last.Reported {
				same := zzvt.And(types.WorkPackageHash(last.Reported[j].Hash) == eg[i].Report.PackageSpec.Hash, last.Reported[j].ExportsRoot == eg[i].Report.PackageSpec.ExportsRoot)
				cout += zzvt.Ite64(same, 1, 0)
			}
			zzvt.Assert(cin == cout, "new-entry-reports-are-the-guaranteed-packages")
		}
	}
}

// ZZ_C25_commitment: the commitment of the accumulation outputs: MB([E4(s) ++ h], Keccak)
// appended to the belt, then the super-peak; 0..2 outputs, belt of 0..2 peaks.
//zz:workers=4
func ZZ_C25_commitment() {
	no := zzvt.Range("outputs", 0, 2)
	lao := make(types.LastAccOut, no)
	var blobs []types.ByteSequence
	for i := range lao {
		lao[i] = types.AccumulatedServiceHash{ServiceID: types.ServiceID(zzvt.U32("service")), Hash: zzHash("out")}
		s := uint32(lao[i].ServiceID)
		b := append([]byte{byte(s), byte(s >> 8), byte(s >> 16), byte(s >> 24)}, lao[i].Hash[:]...)
		blobs = append(blobs, b)
	}
	ser, err := serLastAccOut(lao)
	zzvt.Assert(err == nil, "serialise-outputs")
	zzvt.Assert(len(ser) == no, "one-blob-per-output")
	if len(ser) == no {
		for i := range ser {
			zzvt.Assert(zzvt.EqBytes(ser[i], blobs[i]), "output-blob-is-E4(service)++hash")
		}
	}
	root := lastAccOutRoot(ser)
	zzvt.Assert(root == merkle.Mb(blobs, hash.KeccakHash), "root-is-well-balanced-keccak-merkle")
}

// ZZ_C25_belt: the accumulation-output root (any hash, the zero hash of an empty output list
// included) is appended to the belt on every block and the entry commits to the belt after the
// append: AppendAndCommitMmr(b, r) = (A(b, r), MR(A(b, r))) with A and MR the mountain-range
// functions decided against the Gray Paper by C19. Belts of 0..2 peak slots, each present or
// absent.
//zz:workers=4
func ZZ_C25_belt() {
	n := zzvt.Range("peakSlots", 0, 2)
	peaks := make([]types.MmrPeak, n)
	ref := make([]types.MmrPeak, n)
	for i := range peaks {
		if zzvt.Bool("peakPresent") {
			h := zzHash("peak")
			h2 := h
			peaks[i], ref[i] = &h, &h2
		}
	}
	root := zzHash("root") // both arbitrary bytes may be zero: H^0, the root of no outputs
	belt, commit := AppendAndCommitMmr(types.Mmr{Peaks: peaks}, root)
	var m *mmr.MMR
	if n == 0 {
		m = mmr.NewMMR(hash.KeccakHash)
	} else {
		m = mmr.NewMMRFromPeaks(ref, hash.KeccakHash)
	}
	r2 := root
	want := m.AppendOne(types.MmrPeak(&r2))
	zzvt.Assert(len(belt.Peaks) == len(want), "belt-after-append-length")
	for i := range want {
		if i < len(belt.Peaks) {
			zzvt.Assert((belt.Peaks[i] == nil) == (want[i] == nil), "belt-after-append-peak-presence")
			if belt.Peaks[i] != nil && want[i] != nil {
				zzvt.Assert(*belt.Peaks[i] == *want[i], "belt-after-append-peak")
			}
		}
	}
	zzvt.Assert(commit == m.SuperPeak(want), "entry-commits-to-the-belt-after-the-append")
}
