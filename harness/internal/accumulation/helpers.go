package accumulation

import (
	"github.com/New-JAMneration/JAM-Protocol/internal/blockchain"
	"github.com/New-JAMneration/JAM-Protocol/internal/types"
)

func blockchainFresh() *blockchain.ChainState    { return blockchain.ZZFresh() }
func blockchainSetLatest(b types.Block)          { blockchain.ZZSetLatestBlock(b) }
