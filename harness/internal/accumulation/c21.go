package accumulation

import (
	"github.com/New-JAMneration/JAM-Protocol/internal/types"
	"github.com/New-JAMneration/JAM-Protocol/internal/zzvt"
)

// Hashes come from a four-value alphabet (first byte 0..3) so that every dependency graph on
// the reports - cycles, self-dependencies, duplicate package hashes - is one assignment away.
func zzPkg(name string) types.WorkPackageHash {
	var h types.WorkPackageHash
	b := zzvt.U8(name)
	zzvt.Assume(b < 4)
	h[0] = b
	return h
}

type zzRec struct {
	hash types.WorkPackageHash
	deps []types.WorkPackageHash
	id   int
}

func zzIn(h types.WorkPackageHash, x []types.WorkPackageHash) bool {
	r := false
	for _, y := range x {
		r = zzvt.Or(r, y == h)
	}
	return r
}

// zzRefE is 12.7.
func zzRefE(r []zzRec, x []types.WorkPackageHash) []zzRec {
	var out []zzRec
	for _, it := range r {
		if zzIn(it.hash, x) {
			continue
		}
		n := zzRec{hash: it.hash, id: it.id}
		for _, d := range it.deps {
			if !zzIn(d, x) {
				n.deps = append(n.deps, d)
			}
		}
		out = append(out, n)
	}
	return out
}

// zzRefQ is 12.8.
func zzRefQ(r []zzRec) []zzRec {
	var g []zzRec
	var hs []types.WorkPackageHash
	for _, it := range r {
		if len(it.deps) == 0 {
			g = append(g, it)
			hs = append(hs, it.hash)
		}
	}
	if len(g) == 0 {
		return nil
	}
	return append(g, zzRefQ(zzRefE(r, hs))...)
}

func zzQueue(n, maxDeps int) (types.ReadyQueueItem, []zzRec) {
	q := make(types.ReadyQueueItem, n)
	ref := make([]zzRec, n)
	for i := range q {
		h := zzPkg("pkg")
		q[i].Report.PackageSpec.Hash = h
		q[i].Report.AuthGasUsed = types.Gas(i + 1) // identifies the report
		nd := zzvt.Range("ndeps", 0, maxDeps)
		ref[i] = zzRec{hash: h, id: i + 1}
		for j := 0; j < nd; j++ {
			d := zzPkg("dep")
			q[i].Dependencies = append(q[i].Dependencies, d)
			ref[i].deps = append(ref[i].deps, d)
		}
	}
	return q, ref
}

// ZZ_C21_edit: the queue-editing function E (12.7) on 0..3 records with 0..2 dependencies each
// and an accumulated set of 0..2 hashes: drops records whose own hash is accumulated, removes
// accumulated hashes from dependency lists, keeps order.
//zz:workers=16 paths=100000
func ZZ_C21_edit() {
	n := zzvt.Range("n", 0, 3)
	q, ref := zzQueue(n, 2)
	nx := zzvt.Range("nx", 0, 2)
	x := make([]types.WorkPackageHash, nx)
	for i := range x {
		x[i] = zzPkg("x")
	}
	got := QueueEditingFunction(q, x)
	want := zzRefE(ref, x)
	zzvt.Assert(len(got) == len(want), "edited-queue-length")
	if len(got) != len(want) {
		return
	}
	for i := range want {
		zzvt.Assert(int(got[i].Report.AuthGasUsed) == want[i].id, "edited-queue-order")
		zzvt.Assert(len(got[i].Dependencies) == len(want[i].deps), "remaining-dependency-count")
		if len(got[i].Dependencies) == len(want[i].deps) {
			for j := range want[i].deps {
				zzvt.Assert(got[i].Dependencies[j] == want[i].deps[j], "remaining-dependencies")
			}
		}
	}
}

// ZZ_C21_priority: the accumulation priority queue Q (12.8) on 0..3 records with 0..2
// dependencies each over the four-value alphabet: equals the Gray Paper recursion; every chosen
// report is listed after the chosen reports it depends on; nothing with an unsatisfiable
// dependency is chosen.
//zz:workers=16 paths=100000
func ZZ_C21_priority() {
	n := zzvt.Range("n", 0, 3)
	q, ref := zzQueue(n, 2)
	got := AccumulationPriorityQueue(q)
	want := zzRefQ(ref)
	zzvt.Assert(len(got) == len(want), "chosen-count")
	if len(got) != len(want) {
		return
	}
	for i := range want {
		zzvt.Assert(int(got[i].AuthGasUsed) == want[i].id, "chosen-order")
	}
	// derived: dependencies of a chosen report are hashes of strictly earlier chosen reports
	for i := range got {
		id := int(got[i].AuthGasUsed)
		for _, d := range ref[id-1].deps {
			sat := false
			for k := 0; k < i; k++ {
				sat = zzvt.Or(sat, got[k].PackageSpec.Hash == d)
			}
			zzvt.Assert(sat, "dependencies-precede-dependants")
		}
	}
}

// ---- W*, xi', vartheta' through the chain-state singleton ---------------------------------

func zzReport(id int, h types.WorkPackageHash, deps []types.WorkPackageHash, viaLookup bool) types.WorkReport {
	var r types.WorkReport
	r.PackageSpec.Hash = h
	r.AuthGasUsed = types.Gas(id)
	for i, d := range deps {
		if viaLookup && i == 0 {
			r.SegmentRootLookup = append(r.SegmentRootLookup, types.SegmentRootLookupItem{WorkPackageHash: d})
		} else {
			r.Context.Prerequisites = append(r.Context.Prerequisites, types.OpaqueHash(d))
		}
	}
	return r
}

// ZZ_C21_wstar: W* = W! ++ Q(E(rotated ready queue ++ W_Q, P(W!))) (12.4-12.12) computed by the
// real pipeline on the chain-state singleton: 0..2 newly available reports (with 0..1
// dependency each, given as a prerequisite or as a segment-root lookup), a ready queue holding
// 0..1 queued report at a symbolic slot position, one accumulated hash in xi, block slots 0, 5, 11 and 90 (m = 0, 5, 11, 6).
// No report whose hash is in xi is chosen and chosen reports follow their dependencies.
//zz:workers=16 paths=100000
func ZZ_C21_wstar() {
	cs := blockchainFresh()
	E := types.EpochLength
	// xi with one accumulated hash
	xi := make(types.AccumulatedQueue, E)
	acc := zzPkg("accumulated")
	xi[zzvt.Range("xiPos", 0, 1)*(E-1)] = types.AccumulatedQueueItem{acc}
	cs.GetPriorStates().SetXi(xi)
	// ready queue with 0..1 record
	vartheta := make(types.ReadyQueue, E)
	var ref []zzRec
	var queued []zzRec
	if zzvt.Bool("hasQueued") {
		h := zzPkg("queuedPkg")
		d := zzPkg("queuedDep")
		pos := zzvt.Range("queuedPos", 0, 2) * 5 // 0, 5, 10
		vartheta[pos] = types.ReadyQueueItem{{Report: zzReport(9, h, nil, false), Dependencies: []types.WorkPackageHash{d}}}
		queued = append(queued, zzRec{hash: h, deps: []types.WorkPackageHash{d}, id: 9})
	}
	cs.GetPriorStates().SetVartheta(vartheta)
	// available reports
	n := zzvt.Range("available", 0, 2)
	avail := make([]types.WorkReport, n)
	for i := range avail {
		h := zzPkg("pkg")
		var deps []types.WorkPackageHash
		if zzvt.Bool("hasDep") {
			deps = append(deps, zzPkg("dep"))
		}
		avail[i] = zzReport(i+1, h, deps, i == 0 && zzvt.Bool("viaLookup"))
		ref = append(ref, zzRec{hash: h, deps: deps, id: i + 1})
	}
	cs.GetIntermediateStates().SetAvailableWorkReports(avail)
	var blk types.Block
	blk.Header.Slot = types.TimeSlot([]uint32{0, 5, 11, 12*7 + 6}[zzvt.Range("slotSel", 0, 3)])
	blockchainSetLatest(blk)

	UpdateImmediatelyAccumulateWorkReports()
	UpdateQueuedWorkReports()
	UpdateAccumulatableWorkReports()
	got := cs.GetIntermediateStates().GetAccumulatableWorkReports()

	// oracle
	var wbang, rest []zzRec
	var wbangHashes []types.WorkPackageHash
	for _, r := range ref {
		if len(r.deps) == 0 {
			wbang = append(wbang, r)
			wbangHashes = append(wbangHashes, r.hash)
		} else {
			rest = append(rest, r)
		}
	}
	wq := zzRefE(rest, []types.WorkPackageHash{acc})
	composed := append(append([]zzRec{}, queued...), wq...)
	want := append(append([]zzRec{}, wbang...), zzRefQ(zzRefE(composed, wbangHashes))...)
	zzvt.Assert(len(got) == len(want), "chosen-count")
	if len(got) != len(want) {
		return
	}
	for i := range want {
		zzvt.Assert(int(got[i].AuthGasUsed) == want[i].id, "chosen-order")
	}
	for i := range got {
		if got[i].AuthGasUsed != 9 && len(ref[int(got[i].AuthGasUsed)-1].deps) > 0 {
			zzvt.Assert(got[i].PackageSpec.Hash != acc, "accumulated-report-not-chosen-again")
		}
	}
}

// ZZ_C21_next: xi' and vartheta' (12.31-12.33) by the real updateXi/updateVartheta on the
// singleton: xi' shifts by one and gains P(W*[:n]); vartheta' at (m-i) mod E is E(W_Q, xi'_last)
// for i = 0, empty for 1 <= i < tau'-tau, E(vartheta_old, xi'_last) otherwise. Consequently no
// entry kept for later has an accumulated hash or a dependency that was just accumulated.
// Bound: E = 12, W* of 0..2 reports, n <= |W*|, one queued and one carried-over record, slot
// gaps 1, 2, 12, 13.
//zz:workers=16 paths=100000
func ZZ_C21_next() {
	cs := blockchainFresh()
	E := types.EpochLength
	priorXi := make(types.AccumulatedQueue, E)
	old := zzPkg("oldAccumulated")
	priorXi[1+zzvt.Range("oldPos", 0, 1)*(E-2)] = types.AccumulatedQueueItem{old} // position 1 or E-1
	priorXi[0] = types.AccumulatedQueueItem{zzPkg("falloff")}
	cs.GetPriorStates().SetXi(priorXi)
	nw := zzvt.Range("wstar", 0, 2)
	wstar := make([]types.WorkReport, nw)
	var whashes []types.WorkPackageHash
	for i := range wstar {
		h := zzPkg("pkg")
		wstar[i] = zzReport(i+1, h, nil, false)
		whashes = append(whashes, h)
	}
	n := zzvt.Range("n", 0, nw)
	cs.GetIntermediateStates().SetAccumulatableWorkReports(wstar)
	// queued and carried-over records
	qh, qd := zzPkg("queuedPkg"), zzPkg("queuedDep")
	cs.GetIntermediateStates().SetQueuedWorkReports(types.ReadyQueueItem{{Report: zzReport(7, qh, nil, false), Dependencies: []types.WorkPackageHash{qd}}})
	vartheta := make(types.ReadyQueue, E)
	ch, cd := zzPkg("carriedPkg"), zzPkg("carriedDep")
	cpos := zzvt.Range("carriedPos", 0, 3) * 3 // 0,3,6,9
	vartheta[cpos] = types.ReadyQueueItem{{Report: zzReport(8, ch, nil, false), Dependencies: []types.WorkPackageHash{cd}}}
	cs.GetPriorStates().SetVartheta(vartheta)
	slot := uint32(12*5 + zzvt.Range("m", 0, 3)*3 + 1) // m = 1, 4, 7, 10
	off := []uint32{1, 2, 12, 13}[zzvt.Range("gap", 0, 3)]
	var blk types.Block
	blk.Header.Slot = types.TimeSlot(slot)
	blockchainSetLatest(blk)
	cs.GetPriorStates().SetTau(types.TimeSlot(slot - off))
	cs.GetPosteriorStates().SetTau(types.TimeSlot(slot))

	updateXi(cs, types.U64(n))
	updateVartheta(cs)
	xi := cs.GetPosteriorStates().GetXi()
	vt := cs.GetPosteriorStates().GetVartheta()

	zzvt.Assert(len(xi) == E, "xi-length")
	for i := 0; i < E-1; i++ {
		want := priorXi[i+1]
		zzvt.Assert(len(xi[i]) == len(want), "xi-shifted-by-one")
		if len(want) == 1 && len(xi[i]) == 1 {
			zzvt.Assert(xi[i][0] == want[0], "xi-shifted-by-one")
		}
	}
	last := xi[E-1]
	zzvt.Assert(len(last) == n, "xi-gains-the-accumulated-reports")
	for _, h := range whashes[:n] {
		zzvt.Assert(zzIn(h, last), "xi-gains-the-accumulated-reports")
	}
	m := int(slot) % E
	for i := 0; i < E; i++ {
		idx := ((m-i)%E + E) % E
		var src []zzRec
		switch {
		case i == 0:
			src = []zzRec{{hash: qh, deps: []types.WorkPackageHash{qd}, id: 7}}
		case i < int(off):
			src = nil
		default:
			if idx == cpos {
				src = []zzRec{{hash: ch, deps: []types.WorkPackageHash{cd}, id: 8}}
			}
		}
		want := zzRefE(src, whashes[:n])
		got := vt[idx]
		zzvt.Assert(len(got) == len(want), "ready-queue-entry")
		if len(got) == len(want) && len(want) == 1 {
			zzvt.Assert(int(got[0].Report.AuthGasUsed) == want[0].id, "ready-queue-record")
			zzvt.Assert(len(got[0].Dependencies) == len(want[0].deps), "ready-queue-dependencies")
			zzvt.Assert(!zzIn(got[0].Report.PackageSpec.Hash, last), "kept-record-not-accumulated")
			for _, d := range got[0].Dependencies {
				zzvt.Assert(!zzIn(d, last), "kept-dependency-not-accumulated")
			}
		}
	}
}

// ZZ_C21_dependencies: D(w) (12.6) for reports with 0..2 prerequisites and 0..2 segment-root
// lookup entries: the dependency list is exactly the prerequisites followed by the lookup keys,
// and feeding the real D(w) records through E and Q selects what the Gray Paper selects.
//zz:workers=8
func ZZ_C21_dependencies() {
	np := zzvt.Range("prerequisites", 0, 2)
	nl := zzvt.Range("lookups", 0, 2)
	var r types.WorkReport
	var want []types.WorkPackageHash
	for i := 0; i < np; i++ {
		h := zzPkg("prereq")
		r.Context.Prerequisites = append(r.Context.Prerequisites, types.OpaqueHash(h))
		want = append(want, h)
	}
	for i := 0; i < nl; i++ {
		h := zzPkg("lookupKey")
		r.SegmentRootLookup = append(r.SegmentRootLookup, types.SegmentRootLookupItem{WorkPackageHash: h})
		want = append(want, h)
	}
	r.PackageSpec.Hash = zzPkg("pkg")
	d := GetDependencyFromWorkReport(r)
	zzvt.Assert(d.Report.PackageSpec.Hash == r.PackageSpec.Hash, "record-carries-the-report")
	zzvt.Assert(len(d.Dependencies) == len(want), "dependency-count")
	if len(d.Dependencies) == len(want) {
		for i := range want {
			zzvt.Assert(d.Dependencies[i] == want[i], "dependencies-are-prerequisites-and-lookup-keys")
		}
	}
	// the report becomes accumulatable exactly when all of them are accumulated
	x := []types.WorkPackageHash{zzPkg("acc1"), zzPkg("acc2")}
	got := AccumulationPriorityQueue(QueueEditingFunction(types.ReadyQueueItem{d}, x))
	all := !zzIn(r.PackageSpec.Hash, x)
	for _, w := range want {
		all = zzvt.And(all, zzIn(w, x))
	}
	zzvt.Assert((len(got) == 1) == all, "chosen-iff-every-dependency-accumulated")
}
