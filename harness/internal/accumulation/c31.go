package accumulation

import (
	"bytes"

	"github.com/New-JAMneration/JAM-Protocol/internal/types"
	"github.com/New-JAMneration/JAM-Protocol/internal/utilities/hash"
	"github.com/New-JAMneration/JAM-Protocol/internal/zzvt"
)

// zzDelta builds δ with two services (ids 5 and 9), each with 0..1 stored preimage and
// 0..1 lookup record whose hash is either the hash of one of the extrinsic blobs or an
// unrelated constant, so that "solicited", "already provided" and "unsolicited" all occur.
func zzAccount(cands []types.OpaqueHash, lens []types.U32) types.ServiceAccount {
	acc := types.ServiceAccount{PreimageLookup: types.PreimagesMapEntry{}, LookupDict: types.LookupMetaMapEntry{}, StorageDict: types.Storage{}}
	pick := func(name string) (types.OpaqueHash, types.U32) {
		i := zzvt.Range(name, 0, len(cands))
		if i == len(cands) {
			var h types.OpaqueHash
			h[0], h[1] = 0xEE, 0x77
			return h, 7
		}
		return cands[i], lens[i]
	}
	if zzvt.Bool("hasPreimage") {
		h, _ := pick("preimageOf")
		acc.PreimageLookup[h] = []byte{1}
	}
	if zzvt.Bool("hasLookup") {
		h, l := pick("lookupOf")
		if zzvt.Bool("lenOff") {
			l++
		}
		slots := make(types.TimeSlotSet, zzvt.Range("nslots", 0, 1))
		for i := range slots {
			slots[i] = 3
		}
		acc.LookupDict[types.LookupMetaMapkey{Hash: h, Length: l}] = slots
	}
	return acc
}

// zzSimpleAccount: either empty or soliciting the first candidate.
func zzSimpleAccount(cands []types.OpaqueHash, lens []types.U32) types.ServiceAccount {
	acc := types.ServiceAccount{PreimageLookup: types.PreimagesMapEntry{}, LookupDict: types.LookupMetaMapEntry{}, StorageDict: types.Storage{}}
	if zzvt.Bool("solicitsFirst") {
		acc.LookupDict[types.LookupMetaMapkey{Hash: cands[0], Length: lens[0]}] = types.TimeSlotSet{}
	}
	return acc
}

// ZZ_C31_admit: ValidatePreimageExtrinsics accepts exactly the extrinsics that are strictly
// ordered by (requester, blob) and whose every entry is solicited (lookup record present and
// empty) and not yet provided. Bound: 1..2 preimages, blobs 0..2 bytes, requesters symbolic,
// service 5 with at most one preimage and one lookup record (right/wrong hash, right/wrong
// length, empty/non-empty record), service 9 empty or soliciting the first blob, service 11
// absent; no raw key-values.
//zz:workers=16 paths=60000
func ZZ_C31_admit() { zzAdmit(1, false) }

// ZZ_C31_admit_wide: blobs up to 2 bytes and both services fully varied.
//zz:tier=thorough workers=16 paths=400000
func ZZ_C31_admit_wide() { zzAdmit(2, true) }

func zzAdmit(maxBlob int, bothFull bool) {
	n := zzvt.Range("n", 1, 2)
	eps := make(types.PreimagesExtrinsic, n)
	var hs []types.OpaqueHash
	var ls []types.U32
	for i := range eps {
		eps[i].Requester = types.ServiceID(zzvt.U32("requester"))
		zzvt.Assume(zzvt.Or(eps[i].Requester == 5, zzvt.Or(eps[i].Requester == 9, eps[i].Requester == 11)))
		eps[i].Blob = zzvt.Bytes("blob", zzvt.Range("bloblen", 0, maxBlob))
		hs = append(hs, hash.Blake2bHash(eps[i].Blob))
		ls = append(ls, types.U32(len(eps[i].Blob)))
	}
	delta := types.ServiceAccountState{5: zzAccount(hs, ls)}
	if bothFull {
		delta[9] = zzAccount(hs, ls)
	} else {
		delta[9] = zzSimpleAccount(hs, ls)
	}
	kv := types.StateKeyVals{}
	err := ValidatePreimageExtrinsics(eps, delta, &kv)
	// oracle 12.38-12.40
	sorted := true
	for i := 1; i < n; i++ {
		a, b := eps[i-1], eps[i]
		if a.Requester > b.Requester || (a.Requester == b.Requester && bytes.Compare(a.Blob, b.Blob) >= 0) {
			sorted = false
		}
	}
	needed := true
	for i := range eps {
		acc, ok := delta[eps[i].Requester]
		if !ok {
			needed = false
			continue
		}
		slots, solicited := acc.LookupDict[types.LookupMetaMapkey{Hash: hs[i], Length: ls[i]}]
		_, provided := acc.PreimageLookup[hs[i]]
		if !solicited || len(slots) != 0 || provided {
			needed = false
		}
	}
	zzvt.Assert((err == nil) == (sorted && needed), "preimage-extrinsic-admission")
}

// ZZ_C31_integrate: every admitted preimage is stored with [τ'] as its availability record
// and nothing else in δ changes.
//zz:workers=4
func ZZ_C31_integrate() {
	blob := zzvt.Bytes("blob", zzvt.Range("bloblen", 0, 2))
	h := hash.Blake2bHash(blob)
	acc := types.ServiceAccount{PreimageLookup: types.PreimagesMapEntry{}, LookupDict: types.LookupMetaMapEntry{}, StorageDict: types.Storage{}}
	key := types.LookupMetaMapkey{Hash: h, Length: types.U32(len(blob))}
	acc.LookupDict[key] = types.TimeSlotSet{}
	var other types.OpaqueHash
	other[0] = 0xEE
	zzvt.Assume(h != other) // the unrelated stored preimage is a different hash
	acc.PreimageLookup[other] = []byte{9}
	bystander := types.ServiceAccount{PreimageLookup: types.PreimagesMapEntry{}, LookupDict: types.LookupMetaMapEntry{}, StorageDict: types.Storage{}}
	delta := types.ServiceAccountState{5: acc, 9: bystander}
	tau := types.TimeSlot(zzvt.U32("tauPrime"))
	out, err := UpdateDeltaWithExtrinsicPreimage(types.PreimagesExtrinsic{{Requester: 5, Blob: blob}}, delta, tau)
	zzvt.Assert(err == nil, "integrate-no-error")
	got := out[5]
	zzvt.Assert(len(got.LookupDict[key]) == 1 && got.LookupDict[key][0] == tau, "availability-starts-at-block-slot")
	zzvt.Assert(zzvt.EqBytes(got.PreimageLookup[h], blob), "preimage-stored")
	zzvt.Assert(len(got.PreimageLookup) == 2 && len(got.LookupDict) == 1, "nothing-else-added")
	zzvt.Assert(len(out[9].PreimageLookup) == 0 && len(out[9].LookupDict) == 0, "other-services-unchanged")
}
