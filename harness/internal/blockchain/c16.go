package blockchain

import (
	"github.com/New-JAMneration/JAM-Protocol/internal/types"
	"github.com/New-JAMneration/JAM-Protocol/internal/utilities/hash"
	m "github.com/New-JAMneration/JAM-Protocol/internal/utilities/merklization"
	"github.com/New-JAMneration/JAM-Protocol/internal/zzvt"
)

// three fixed distinct keys: two share a 6-bit prefix, the third splits at the root
func zzPoolKey(i int) (k types.StateKey) {
	k[0], k[7], k[30] = 0x15, 0xa5, 0x40
	switch i {
	case 1:
		k[0] = 0x17
	case 2:
		k[0] = 0x95
	}
	return
}

// zzVal: a value of length 0, 32 or 33 (embedded / embedded-at-the-limit / hashed) with an
// arbitrary last byte.
func zzVal(tag string) []byte {
	n := [3]int{0, 32, 33}[zzvt.Range(tag+"LenClass", 0, 2)]
	v := make([]byte, n)
	if n > 0 {
		v[n-1] = zzvt.U8(tag + "Byte")
	}
	return v
}

// ZZ_C16_step: one cached root computation from an arbitrary cache state satisfying the cache
// invariant (every entry is (H(v), leafhash(k, v)) for some value v): the cached root equals
// the uncached root of the same entries, and afterwards the cache again holds
// (H(v), leafhash(k, v)) for every key just merklized. Covers unchanged values, changed values
// of the same length, embedded/hashed flips, keys absent from the cache and cached keys absent
// from the entries. Bounds: three fixed keys (two of them varied, the third present and
// uncached), value lengths 0/32/33 with one arbitrary byte.
//zz:workers=16 paths=20000
func ZZ_C16_step() { zzCacheStep(2) }

// ZZ_C16_step_3: the same with all three pool keys varying.
//zz:tier=thorough workers=16 paths=20000
func ZZ_C16_step_3() { zzCacheStep(3) }

// zzCacheStep: vary the cache entry and the presence/value of the first `vary` pool keys
// (taken in the order 0, 2, 1); the remaining keys are present with a fixed value and not
// cached.
func zzCacheStep(vary int) {
	cs := ZZFresh()
	if cs.keyLevelCache == nil {
		cs.keyLevelCache = NewKeyLevelCache()
	}
	varied := map[int]bool{}
	for _, i := range []int{0, 2, 1}[:vary] {
		varied[i] = true
	}
	for i := 0; i < 3; i++ {
		if varied[i] && zzvt.Bool("cached") {
			k, v := zzPoolKey(i), zzVal("cachedValue")
			cs.keyLevelCache.PutLeafHash(k, hash.Blake2bHash(v), m.EncodeLeafNodeHash(k, v))
		}
	}
	var kvs types.StateKeyVals
	for i := 2; i >= 0; i-- {
		switch {
		case !varied[i]:
			kvs = append(kvs, types.StateKeyVal{Key: zzPoolKey(i), Value: []byte{7}})
		case zzvt.Bool("present"):
			kvs = append(kvs, types.StateKeyVal{Key: zzPoolKey(i), Value: zzVal("value")})
		}
	}
	want := m.MerklizationSerializedState(kvs)
	got := cs.ComputeStateRootWithCache(kvs)
	zzvt.Assert(got == want, "cached-root-equals-uncached-root")
	for _, kv := range kvs {
		e, ok := cs.keyLevelCache.entries[kv.Key]
		// a single entry is merklized without consulting the cache only when it is alone? no:
		// every leaf goes through the cache callback
		zzvt.Assert(ok, "merklized-key-is-cached")
		if ok {
			zzvt.Assert(e.valueHash == hash.Blake2bHash(kv.Value), "cache-invariant-value-hash")
			zzvt.Assert(e.leafHash == m.EncodeLeafNodeHash(kv.Key, kv.Value), "cache-invariant-leaf-hash")
		}
	}
	// a second computation over the same entries (all hits now) still agrees
	zzvt.Assert(cs.ComputeStateRootWithCache(kvs) == want, "second-computation-agrees")
}

// ZZ_C16_evict: with the cache at its capacity (MaxKeyLevelCacheSize entries), a computation
// over entries that miss clears the cache instead of growing it; the root still equals the
// uncached root and the cache stays within its capacity.
//zz:workers=2
func ZZ_C16_evict() {
	cs := ZZFresh()
	if cs.keyLevelCache == nil {
		cs.keyLevelCache = NewKeyLevelCache()
	}
	fill := types.MaxKeyLevelCacheSize - zzvt.Range("belowCapacity", 0, 1)
	var junk types.OpaqueHash
	junk[0] = 1
	for i := 0; i < fill; i++ {
		var k types.StateKey
		k[1], k[2], k[3] = 0xEE, byte(i), byte(i>>8)
		cs.keyLevelCache.entries[k] = leafCacheEntry{valueHash: junk, leafHash: junk}
	}
	kvs := types.StateKeyVals{
		{Key: zzPoolKey(0), Value: zzVal("value")},
		{Key: zzPoolKey(2), Value: zzVal("value")},
	}
	want := m.MerklizationSerializedState(kvs)
	got := cs.ComputeStateRootWithCache(kvs)
	zzvt.Assert(got == want, "cached-root-equals-uncached-root-at-capacity")
	zzvt.Assert(cs.keyLevelCache.Len() <= types.MaxKeyLevelCacheSize, "cache-within-capacity")
	zzvt.Assert(cs.ComputeStateRootWithCache(kvs) == want, "second-computation-agrees")
}

// ZZ_C16_history: every history of five cached root computations in which one key is absent or
// takes one of three values (two hashed ones and an embedded one) while a second key is
// present in every other computation and a third stays put: after each computation the cached root
// equals the uncached root (4^5 histories, digests computed concretely). This reaches
// behaviour that depends on more than the previous computation (a value returning to an earlier
// one and then staying), which the one-step harness reaches only for cache contents that
// PutLeafHash can build in one call.
//zz:workers=16 paths=60000
func ZZ_C16_history() {
	zzvt.ConcreteHashes()
	cs := ZZFresh()
	if cs.keyLevelCache == nil {
		cs.keyLevelCache = NewKeyLevelCache()
	}
	vals := [][]byte{nil, make([]byte, 33), make([]byte, 33), make([]byte, 32)}
	vals[1][0], vals[2][0], vals[3][0] = 0xA1, 0xB2, 0xC3
	for step := 0; step < 5; step++ {
		var kvs types.StateKeyVals
		if c := zzvt.Range("value", 0, 3); c > 0 {
			kvs = append(kvs, types.StateKeyVal{Key: zzPoolKey(0), Value: vals[c]})
		}
		if step%2 == 1 {
			kvs = append(kvs, types.StateKeyVal{Key: zzPoolKey(1), Value: vals[1]})
		}
		kvs = append(kvs, types.StateKeyVal{Key: zzPoolKey(2), Value: []byte{7}})
		want := m.MerklizationSerializedState(kvs)
		got := cs.ComputeStateRootWithCache(kvs)
		zzvt.Assert(got == want, "cached-root-equals-uncached-root-in-history")
	}
}
