package blockchain

import "github.com/New-JAMneration/JAM-Protocol/internal/types"

// ZZSetLatestBlock makes block the latest block of the chain-state singleton without
// going through the block store (harness set-up only).
func ZZSetLatestBlock(block types.Block) {
	GetInstance().unfinalizedBlocks.AddBlock(block)
}

// ZZFresh replaces the singleton by a fresh chain state.
func ZZFresh() *ChainState {
	ResetInstance()
	return GetInstance()
}
