package memory

import (
	"sort"

	"github.com/New-JAMneration/JAM-Protocol/internal/zzvt"
)

// zzKeyN: a key of length 0..maxLen over the first `alpha` letters of {a, b, *} (one path per
// key).
func zzKeyN(tag string, maxLen, alpha int) []byte {
	n := zzvt.Range(tag+"Len", 0, maxLen)
	k := make([]byte, n)
	for i := range k {
		k[i] = [3]byte{'a', 'b', '*'}[zzvt.Range(tag+"Char", 0, alpha-1)]
	}
	return k
}

func zzKey(tag string) []byte { return zzKeyN(tag, 2, 3) }

// zzValue: a value of length 0..2 with arbitrary bytes.
func zzValue(tag string) []byte { return zzvt.Bytes(tag, zzvt.Range(tag+"Len", 0, 2)) }

func zzClone(b []byte) []byte { return append([]byte{}, b...) }

// zzState fills db and the reference map with 0..n entries.
func zzState(db *memoryDB, n, alpha int) map[string][]byte {
	ref := map[string][]byte{}
	cnt := zzvt.Range("entries", 0, n)
	for i := 0; i < cnt; i++ {
		k, v := zzKeyN("stateKey", 2, alpha), zzvt.Bytes("stateValue", 1)
		db.data[string(k)] = zzClone(v)
		ref[string(k)] = zzClone(v)
	}
	return ref
}

// zzSame: db holds exactly the reference map.
func zzSame(db *memoryDB, ref map[string][]byte, label string) {
	zzvt.Assert(len(db.data) == len(ref), label+"-same-key-count")
	for k, v := range ref {
		got, ok := db.data[k]
		zzvt.Assert(ok, label+"-key-present")
		if ok {
			zzvt.Assert(zzvt.EqBytes(got, v), label+"-value")
		}
	}
}

// zzScribble overwrites a caller buffer after the call that received it.
func zzScribble(b []byte) {
	for i := range b {
		b[i] ^= 0x5a
	}
}

// ZZ_C27_memory_ops: from any store with 0..1 entries, one Put, Delete, Get or Has with an
// arbitrary key behaves like the same operation on an ordered map; the caller's buffers may be
// overwritten afterwards, and a returned value may be overwritten, without affecting the store.
//zz:workers=8 paths=60000
func ZZ_C27_memory_ops() {
	db := NewDatabase().(*memoryDB)
	ref := zzState(db, 1, 3)
	k := zzKey("key")
	ks := string(k)
	switch zzvt.Range("op", 0, 3) {
	case 0:
		v := zzValue("value")
		want := zzClone(v)
		zzvt.Assert(db.Put(k, v) == nil, "put-no-error")
		zzScribble(k)
		zzScribble(v)
		ref[ks] = want
	case 1:
		zzvt.Assert(db.Delete(k) == nil, "delete-no-error")
		zzScribble(k)
		delete(ref, ks)
	case 2:
		got, ok, err := db.Get(k)
		want, has := ref[ks]
		zzvt.Assert(err == nil, "get-no-error")
		zzvt.Assert(ok == has, "get-presence")
		if ok && has {
			zzvt.Assert(zzvt.EqBytes(got, want), "get-value")
		}
		zzScribble(got)
		zzScribble(k)
	case 3:
		ok, err := db.Has(k)
		_, has := ref[ks]
		zzvt.Assert(err == nil, "has-no-error")
		zzvt.Assert(ok == has, "has-presence")
	}
	zzSame(db, ref, "after-op")
}

// ZZ_C27_memory_batch: a batch of 1..2 buffered puts/deletes over a store with 0..1 entries:
// nothing is visible before Commit, everything (in order) after it, nothing at all if the
// batch is closed instead; the caller overwrites its key and value buffers right after handing
// them to the batch.
//zz:workers=8 paths=60000
func ZZ_C27_memory_batch() {
	db := NewDatabase().(*memoryDB)
	ref := zzState(db, 1, 2)
	before := map[string][]byte{}
	for k, v := range ref {
		before[k] = zzClone(v)
	}
	b := db.NewBatch()
	n := zzvt.Range("ops", 1, 2)
	for i := 0; i < n; i++ {
		k := zzKeyN("key", 2, 2)
		ks := string(k)
		if zzvt.Bool("isDelete") {
			zzvt.Assert(b.Delete(k) == nil, "batch-delete-no-error")
			delete(ref, ks)
		} else {
			v := zzvt.Bytes("value", zzvt.Range("valueLen", 0, 1))
			ref[ks] = zzClone(v)
			zzvt.Assert(b.Put(k, v) == nil, "batch-put-no-error")
			zzScribble(v)
		}
		zzScribble(k)
	}
	zzSame(db, before, "before-commit")
	if zzvt.Bool("commit") {
		zzvt.Assert(b.Commit() == nil, "commit-no-error")
		zzSame(db, ref, "after-commit")
	} else {
		zzvt.Assert(b.Close() == nil, "close-no-error")
		zzSame(db, before, "after-discard")
	}
}

// ZZ_C27_memory_iter: over a store with 0..2 entries (keys over {a, b}, length 0..2; prefix of
// length 0..1, start of length 0..2), NewIterator(prefix, start) yields
// exactly the keys that have the prefix and are >= prefix+start, in ascending byte order, with
// their values; writes made after the iterator was created do not show through it.
//zz:workers=8 paths=200000
func ZZ_C27_memory_iter() {
	db := NewDatabase().(*memoryDB)
	ref := zzState(db, 2, 2)
	prefix, start := zzKeyN("prefix", 1, 2), zzKeyN("start", 2, 2)
	it, err := db.NewIterator(prefix, start)
	zzvt.Assert(err == nil, "iterator-no-error")
	if err != nil {
		return
	}
	lower := string(prefix) + string(start)
	var want []string
	for k := range ref {
		if len(k) >= len(prefix) && k[:len(prefix)] == string(prefix) && k >= lower {
			want = append(want, k)
		}
	}
	sort.Strings(want)
	// later writes must not show through
	for k := range ref {
		db.data[k] = []byte{0xEE, 0xEE, 0xEE}
	}
	zzScribble(prefix)
	zzScribble(start)
	for _, k := range want {
		zzvt.Assert(it.Next(), "iterator-yields-every-matching-key")
		zzvt.Assert(string(it.Key()) == k, "iterator-ascending-order")
		zzvt.Assert(zzvt.EqBytes(it.Value(), ref[k]), "iterator-value-snapshot")
	}
	zzvt.Assert(!it.Next(), "iterator-yields-nothing-else")
	zzvt.Assert(it.Error() == nil, "iterator-no-late-error")
	zzvt.Assert(it.Close() == nil, "iterator-close")
}
