package safrole

import (
	"github.com/New-JAMneration/JAM-Protocol/internal/types"
	vrf "github.com/New-JAMneration/JAM-Protocol/pkg/Rust-VRF/vrf-func-ffi/src"
	"github.com/New-JAMneration/JAM-Protocol/internal/zzvt"
)

func zzTicket(id byte) types.TicketBody {
	var t types.TicketBody
	t.ID[0] = id
	return t
}

// ZZ_C23_accumulator: one block's ticket-accumulator step (6.30-6.34) through the real
// CreateNewTicketAccumulator on the chain-state singleton, VRF verification being the
// environment (each ticket verifies and yields an arbitrary identifier). Prior accumulator:
// 0, 3, 11 or 12 (= E) sorted distinct tickets; 0..3 new tickets with arbitrary identifiers and
// attempts; slots inside / outside the submission window, same epoch or epoch change.
// The block is accepted exactly when no ticket arrives after the window, attempts are < N, new
// identifiers are strictly increasing and none is already accumulated; then the new
// accumulator is the E lowest of (new ++ carried-over), strictly increasing.
//zz:workers=16 paths=100000
func ZZ_C23_accumulator() {
	cs := zzFresh()
	E := types.EpochLength
	k := []int{0, 3, 11, 12}[zzvt.Range("priorSize", 0, 3)]
	prior := make(types.TicketsAccumulator, k)
	for i := range prior {
		prior[i] = zzTicket(byte(10 * (i + 1)))
	}
	cs.GetPriorStates().SetGammaA(prior)
	n := zzvt.Range("newTickets", 0, 3)
	ext := make(types.TicketsExtrinsic, n)
	for i := range ext {
		ext[i].Attempt = types.TicketAttempt(zzvt.U8("attempt"))
	}
	var blk types.Block
	blk.Extrinsic.Tickets = ext
	// slots: tau' index inside the window (3) or in the tail (10, 11); epoch change or not
	mPrime := []uint32{3, 10, 11}[zzvt.Range("slotIndex", 0, 2)]
	// the prior slot lies in the same epoch, in the previous one, or two epochs back (a block
	// after skipped epochs): any later epoch restarts the accumulator
	gap := zzvt.Range("epochGap", 0, 2)
	epochChange := gap > 0
	tauPrime := uint32(5*E) + mPrime
	tau := tauPrime - 1
	switch gap {
	case 1:
		tau = uint32(5*E) - 1
	case 2:
		tau = uint32(3*E) + 2
	}
	blk.Header.Slot = types.TimeSlot(tauPrime)
	zzSetLatest(blk)
	cs.GetPriorStates().SetTau(types.TimeSlot(tau))
	cs.GetPosteriorStates().SetTau(types.TimeSlot(tauPrime))

	errc := CreateNewTicketAccumulator(&vrf.Verifier{})
	accepted := errc == nil

	// the identifiers the environment produced are the ones now in the posterior state or
	// we recompute: the stub draws them in order; read them back from a shadow verification
	got := cs.GetPosteriorStates().GetGammaA()

	// oracle: we need the new identifiers; they are symbolic values created inside the stub,
	// observable through the accepted result only. Check the result's properties directly.
	if mPrime >= uint32(types.SlotSubmissionEnd) && n > 0 {
		zzvt.Assert(!accepted, "tickets-after-submission-window-rejected")
		return
	}
	overAttempt := false
	for i := range ext {
		overAttempt = zzvt.Or(overAttempt, ext[i].Attempt >= types.TicketAttempt(types.TicketsPerValidator))
	}
	if overAttempt {
		zzvt.Assert(!accepted, "over-attempted-ticket-rejected")
		return
	}
	carried0 := prior
	if epochChange {
		carried0 = nil
	}
	ids := vrf.ZZLastTicketIDs
	zzvt.Assert(len(ids) == n, "every-ticket-verified")
	if len(ids) != n {
		return
	}
	valid := true
	for i := range ids {
		if i > 0 {
			valid = zzvt.And(valid, ids[i-1] < ids[i])
		}
		for _, c := range carried0 {
			valid = zzvt.And(valid, ids[i] != c.ID[0])
		}
	}
	zzvt.Assert(accepted == valid, "accepted-iff-sorted-unique-and-not-already-accumulated")
	if !accepted {
		zzvt.Cover("rejected-for-order-or-duplicate")
		return
	}
	// every new ticket that is among the E lowest is in the accumulator
	for i := range ids {
		present := false
		var lower uint64
		for _, g := range got {
			present = zzvt.Or(present, g.ID[0] == ids[i])
			lower += zzvt.Ite64(g.ID[0] < ids[i], 1, 0)
		}
		zzvt.Assert(zzvt.Or(present, lower >= uint64(E)), "new-ticket-kept-unless-E-lower-exist")
	}
	carried := prior
	if epochChange {
		carried = nil
	}
	want := n + len(carried)
	if want > E {
		want = E
	}
	zzvt.Assert(len(got) == want, "accumulator-size-is-min(E, new+carried)")
	zzvt.Assert(len(got) <= E, "accumulator-at-most-one-epoch-long")
	for i := 1; i < len(got); i++ {
		zzvt.Assert(got[i-1].ID[0] < got[i].ID[0], "accumulator-strictly-increasing")
	}
	// every carried-over ticket that is among the E lowest is still there: if a carried ticket
	// is missing, E tickets lower than it must be present
	for _, c := range carried {
		present := false
		var lower uint64
		for _, g := range got {
			present = zzvt.Or(present, g.ID == c.ID)
			lower += zzvt.Ite64(g.ID[0] < c.ID[0], 1, 0)
		}
		zzvt.Assert(zzvt.Or(present, lower >= uint64(E)), "carried-ticket-kept-unless-E-lower-exist")
	}
	// exactly n+|carried| - |got| tickets were cut, and they are not lower than any kept one:
	// the number of kept tickets that are not carried-over equals n minus the cut new ones
	var keptNew uint64
	for _, g := range got {
		isCarried := false
		for _, c := range carried {
			isCarried = zzvt.Or(isCarried, g.ID == c.ID)
		}
		keptNew += zzvt.Ite64(isCarried, 0, 1)
	}
	zzvt.Assert(keptNew <= uint64(n), "only-block-tickets-are-added")
}

// ZZ_C23_reject_order: with the identifiers known (the real checks run on a ticket list):
// unsorted or duplicate identifiers are rejected by VerifyTicketsOrder/VerifyTicketsDuplicate,
// strictly increasing ones are accepted. 0..4 tickets, arbitrary one-byte identifiers.
//zz:workers=4
func ZZ_C23_reject_order() {
	n := zzvt.Range("n", 0, 4)
	ts := make(types.TicketsAccumulator, n)
	strictly := true
	for i := range ts {
		ts[i] = zzTicket(zzvt.U8("id"))
		if i > 0 {
			strictly = zzvt.And(strictly, ts[i-1].ID[0] < ts[i].ID[0])
		}
	}
	ok := VerifyTicketsOrder(ts) == nil && VerifyTicketsDuplicate(ts) == nil
	zzvt.Assert(ok == strictly, "accepted-iff-strictly-increasing")
}

// ZZ_C23_outside_in: the slot-sealer sequence of a full accumulator is the outside-in ordering
// Z (6.25): s0, s_{E-1}, s1, s_{E-2}, ...
func ZZ_C23_outside_in() {
	E := types.EpochLength
	acc := make(types.TicketsAccumulator, E)
	for i := range acc {
		acc[i] = zzTicket(zzvt.U8("id"))
		acc[i].Attempt = types.TicketAttempt(i)
	}
	out := OutsideInSequencer(&acc)
	zzvt.Assert(len(out) == E, "length")
	for i := 0; i < E && i < len(out); i++ {
		src := i / 2
		if i%2 == 1 {
			src = E - 1 - i/2
		}
		zzvt.Assert(out[i] == acc[src], "outside-in-order")
	}
}

// ZZ_C23_fallback: the fallback key sequence F (6.26): key i is the Bandersnatch key of
// validator E4^-1(H(entropy ++ E4(i))[..4]) mod V, for every entropy (Blake2b uninterpreted).
//zz:workers=4
func ZZ_C23_fallback() {
	var entropy types.Entropy
	zzvt.FillBytes("entropy", entropy[:])
	vals := make(types.ValidatorsData, types.ValidatorsCount)
	for i := range vals {
		vals[i].Bandersnatch[0] = byte(50 + i)
	}
	keys := FallbackKeySequence(entropy, vals)
	zzvt.Assert(len(keys) == types.EpochLength, "one-key-per-slot")
	for i := 0; i < len(keys) && i < types.EpochLength; i++ {
		in := append(append([]byte{}, entropy[:]...), byte(i), 0, 0, 0)
		h := zzBlake(in)
		idx := (uint32(h[0]) | uint32(h[1])<<8 | uint32(h[2])<<16 | uint32(h[3])<<24) % uint32(types.ValidatorsCount)
		zzvt.Assert(uint32(keys[i][0]) == 50+idx, "fallback-key-selected-by-entropy")
	}
}

// ZZ_C23_sealer_choice: the choice of the next slot-sealer sequence (6.24) for every epoch
// step (same epoch, next epoch, two epochs later), every slot phase m of the prior slot in
// 0..E-1 and an accumulator that is full or one short: the outside-in ordering of the
// accumulator iff e' = e + 1, m >= Y and the accumulator is full; the prior sequence iff
// e' = e; the fallback key sequence otherwise.
//zz:workers=8
func ZZ_C23_sealer_choice() {
	zzvt.ConcreteHashes()
	cs := zzFresh()
	E := types.EpochLength
	full := zzvt.Bool("accumulatorFull")
	n := E
	if !full {
		n = E - 1
	}
	acc := make(types.TicketsAccumulator, n)
	for i := range acc {
		acc[i] = zzTicket(byte(3 * (i + 1)))
	}
	cs.GetPriorStates().SetGammaA(acc)
	prior := types.TicketsOrKeys{Keys: make([]types.BandersnatchPublic, E)}
	prior.Keys[0][0] = 0x5a
	cs.GetPriorStates().SetGammaS(prior)
	kappa := make(types.ValidatorsData, types.ValidatorsCount)
	for i := range kappa {
		kappa[i].Bandersnatch[0] = byte(0x10 + i)
	}
	cs.GetPosteriorStates().SetKappa(kappa)
	e := types.TimeSlot(7)
	ePrime := e + types.TimeSlot(zzvt.Range("epochStep", 0, 2))
	m := types.TimeSlot(zzvt.Range("priorSlotPhase", 0, E-1))
	UpdateSlotKeySequence(e, ePrime, m)
	got := cs.GetPosteriorStates().GetGammaS()
	switch {
	case ePrime == e+1 && int(m) >= types.SlotSubmissionEnd && full:
		zzvt.Assert(len(got.Tickets) == E && len(got.Keys) == 0, "tickets-seal-the-next-epoch")
		if len(got.Tickets) == E {
			zzvt.Assert(got.Tickets[0].ID == acc[0].ID && got.Tickets[1].ID == acc[E-1].ID, "outside-in-order")
		}
	case ePrime == e:
		zzvt.Assert(len(got.Keys) == E && len(got.Tickets) == 0 && got.Keys[0] == prior.Keys[0], "same-epoch-keeps-the-sequence")
	default:
		zzvt.Assert(len(got.Keys) == E && len(got.Tickets) == 0, "fallback-keys-otherwise")
		if len(got.Keys) == E {
			zzvt.Assert(got.Keys[0][0] >= 0x10 && got.Keys[0][0] < byte(0x10+types.ValidatorsCount), "fallback-keys-are-validator-keys")
		}
	}
}
