package safrole

import (
	hashpkg "github.com/New-JAMneration/JAM-Protocol/internal/utilities/hash"
	"github.com/New-JAMneration/JAM-Protocol/internal/blockchain"
	"github.com/New-JAMneration/JAM-Protocol/internal/types"
)

func zzFresh() *blockchain.ChainState { return blockchain.ZZFresh() }
func zzSetLatest(b types.Block)       { blockchain.ZZSetLatestBlock(b) }

func zzBlake(in []byte) types.OpaqueHash { return hashpkg.Blake2bHash(in) }
