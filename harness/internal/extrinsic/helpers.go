package extrinsic

import (
	"github.com/New-JAMneration/JAM-Protocol/internal/types"
	"github.com/New-JAMneration/JAM-Protocol/internal/utilities/hash"
)

func zzReportHash(r *types.WorkReport) types.WorkReportHash {
	enc := types.GetEncoder()
	b, _ := enc.Encode(r)
	types.PutEncoder(enc)
	return types.WorkReportHash(hash.Blake2bHash(b))
}
