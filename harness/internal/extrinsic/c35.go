package extrinsic

import (
	"github.com/New-JAMneration/JAM-Protocol/internal/blockchain"
	"github.com/New-JAMneration/JAM-Protocol/internal/types"
	"github.com/New-JAMneration/JAM-Protocol/internal/zzvt"
)

func zzRH(name string) types.WorkReportHash {
	var h types.WorkReportHash
	h[0] = zzvt.U8(name)
	return h
}

func zzSortedSet(name string, n int) []types.WorkReportHash {
	out := make([]types.WorkReportHash, n)
	for i := range out {
		out[i] = zzRH(name)
		if i > 0 {
			zzvt.Assume(out[i-1][0] < out[i][0])
		}
	}
	return out
}

func zzSorted(s []types.WorkReportHash) bool {
	ok := true
	for i := 1; i < len(s); i++ {
		ok = zzvt.And(ok, s[i-1][0] < s[i][0])
	}
	return ok
}

func zzHas(s []types.WorkReportHash, h types.WorkReportHash) bool {
	r := false
	for _, x := range s {
		r = zzvt.Or(r, x == h)
	}
	return r
}

// ZZ_C35_split: the vote-split classification (10.11-10.14) for 0..2 verdicts of five votes
// each (tiny V = 6): good iff positives = floor(2V/3)+1, bad iff 0, wonky iff floor(V/3), any
// other count is rejected.
//zz:workers=4
func ZZ_C35_split() {
	n := zzvt.Range("verdicts", 0, 2)
	vc := NewVerdictController()
	var pos []uint64
	for i := 0; i < n; i++ {
		v := types.Verdict{Target: zzRH("target"), Votes: make([]types.Judgement, 5)}
		var p uint64
		for j := range v.Votes {
			v.Votes[j].Vote = zzvt.Bool("vote")
			p += zzvt.Ite64(v.Votes[j].Vote, 1, 0)
		}
		pos = append(pos, p)
		for _, w := range vc.Verdicts { // verdicts of one extrinsic have distinct targets (10.7)
			zzvt.Assume(w.Verdict.Target != v.Target)
		}
		vc.Verdicts = append(vc.Verdicts, VerdictWrapper{v})
	}
	vc.GenerateVerdictSumSequence()
	zzvt.Assert(len(vc.VerdictSumSequence) == n, "one-summary-per-verdict")
	rec, err := CompareVerdictsWithPsi(types.DisputesRecords{}, vc.VerdictSumSequence)
	V := uint64(types.ValidatorsCount)
	allValid := true
	for _, p := range pos {
		allValid = zzvt.And(allValid, zzvt.Or(p == 2*V/3+1, zzvt.Or(p == 0, p == V/3)))
	}
	zzvt.Assert((err == nil) == allValid, "any-other-vote-count-is-rejected")
	if err != nil {
		return
	}
	for i, p := range pos {
		t := vc.Verdicts[i].Verdict.Target
		zzvt.Assert(zzHas(rec.Good, t) == (p == 2*V/3+1), "good-iff-two-thirds-plus-one")
		zzvt.Assert(zzHas(rec.Bad, t) == (p == 0), "bad-iff-no-positive-vote")
		zzvt.Assert(zzHas(rec.Wonky, t) == (p == V/3), "wonky-iff-one-third")
	}
}

// ZZ_C35_sets: invariant D (good, bad, wonky pairwise disjoint and each sorted) is
// re-established by the record update (10.16-10.18): prior sets of 0..2 sorted entries each,
// pairwise disjoint; 0..2 newly judged reports, sorted, not judged before (what SetDisjoint
// and CheckSortUnique enforce); each goes to one class. Afterwards: every set sorted, pairwise
// disjoint, contains its prior entries and the new ones of its class and nothing else.
//zz:workers=16
func ZZ_C35_sets() {
	prior := types.DisputesRecords{Good: zzSortedSet("good", zzvt.Range("ngood", 0, 2)), Bad: zzSortedSet("bad", zzvt.Range("nbad", 0, 2)), Wonky: zzSortedSet("wonky", zzvt.Range("nwonky", 0, 1))}
	all := append(append(append([]types.WorkReportHash{}, prior.Good...), prior.Bad...), prior.Wonky...)
	for i := range all {
		for j := i + 1; j < len(all); j++ {
			zzvt.Assume(all[i] != all[j])
		}
	}
	nn := zzvt.Range("newVerdicts", 0, 2)
	newT := zzSortedSet("target", nn)
	var upd types.DisputesRecords
	for _, t := range newT {
		zzvt.Assume(!zzHas(all, t))
		switch zzvt.Range("class", 0, 2) {
		case 0:
			upd.Good = append(upd.Good, t)
		case 1:
			upd.Bad = append(upd.Bad, t)
		case 2:
			upd.Wonky = append(upd.Wonky, t)
		}
	}
	g, b, w := UpdatePsiG(prior, upd), UpdatePsiB(prior, upd), UpdatePsiW(prior, upd)
	zzvt.Assert(zzSorted(g) && zzSorted(b) && zzSorted(w), "record-sets-stay-sorted")
	for _, x := range g {
		zzvt.Assert(!zzHas(b, x) && !zzHas(w, x), "record-sets-stay-disjoint")
	}
	for _, x := range b {
		zzvt.Assert(!zzHas(w, x), "record-sets-stay-disjoint")
	}
	zzvt.Assert(len(g) == len(prior.Good)+len(upd.Good) && len(b) == len(prior.Bad)+len(upd.Bad) && len(w) == len(prior.Wonky)+len(upd.Wonky), "nothing-lost-nothing-invented")
	for _, x := range prior.Good {
		zzvt.Assert(zzHas(g, x), "prior-good-kept")
	}
	for _, x := range upd.Good {
		zzvt.Assert(zzHas(g, x), "new-good-recorded")
	}
	for _, x := range upd.Bad {
		zzvt.Assert(zzHas(b, x), "new-bad-recorded")
	}
	for _, x := range upd.Wonky {
		zzvt.Assert(zzHas(w, x), "new-wonky-recorded")
	}
}

// ZZ_C35_already_judged: a verdict on a report that is already in good, bad or wonky is
// rejected (SetDisjoint, through the chain-state singleton).
//zz:workers=4
func ZZ_C35_already_judged() {
	cs := blockchain.ZZFresh()
	g, b, w := zzSortedSet("good", 1), zzSortedSet("bad", 1), zzSortedSet("wonky", 1)
	cs.GetPriorStates().SetPsiG(g)
	cs.GetPriorStates().SetPsiB(b)
	cs.GetPriorStates().SetPsiW(w)
	t := zzRH("target")
	vc := NewVerdictController()
	vc.Verdicts = []VerdictWrapper{{types.Verdict{Target: t}}}
	err := vc.SetDisjoint()
	judged := zzvt.Or(t == g[0], zzvt.Or(t == b[0], t == w[0]))
	zzvt.Assert((err != nil) == judged, "already-judged-report-rejected")
}

// ZZ_C35_offenders: the offender set after a block (10.19): sorted, contains every prior
// offender and every new culprit/fault key, nothing else. Prior: 0..2 sorted keys; 0..2 culprits
// and 0..1 fault with arbitrary keys (possibly repeating).
//zz:workers=16
func ZZ_C35_offenders() {
	cs := blockchain.ZZFresh()
	key := func(name string) types.Ed25519Public {
		var k types.Ed25519Public
		k[0] = zzvt.U8(name)
		return k
	}
	np := zzvt.Range("prior", 0, 2)
	prior := make([]types.Ed25519Public, np)
	for i := range prior {
		prior[i] = key("offender")
		if i > 0 {
			zzvt.Assume(prior[i-1][0] < prior[i][0])
		}
	}
	psi := cs.GetPriorStates().GetPsi()
	psi.Offenders = prior
	cs.GetPriorStates().SetPsi(psi)
	culprits := make([]types.Culprit, zzvt.Range("culprits", 0, 2))
	for i := range culprits {
		culprits[i].Key = key("culprit")
	}
	faults := make([]types.Fault, zzvt.Range("faults", 0, 1))
	for i := range faults {
		faults[i].Key = key("fault")
	}
	d := NewDisputeController(NewVerdictController(), NewFaultController(), NewCulpritController())
	d.UpdatePsiO(culprits, faults)
	out := cs.GetPosteriorStates().GetPsi().Offenders
	for i := 1; i < len(out); i++ {
		zzvt.Assert(out[i-1][0] < out[i][0], "offenders-sorted-and-unique")
	}
	in := func(k types.Ed25519Public) bool {
		r := false
		for _, o := range out {
			r = zzvt.Or(r, o == k)
		}
		return r
	}
	for _, p := range prior {
		zzvt.Assert(in(p), "offender-set-only-grows")
	}
	for _, c := range culprits {
		zzvt.Assert(in(c.Key), "culprit-recorded")
	}
	for _, f := range faults {
		zzvt.Assert(in(f.Key), "fault-recorded")
	}
	for _, o := range out {
		known := false
		for _, p := range prior {
			known = zzvt.Or(known, o == p)
		}
		for _, c := range culprits {
			known = zzvt.Or(known, o == c.Key)
		}
		for _, f := range faults {
			known = zzvt.Or(known, o == f.Key)
		}
		zzvt.Assert(known, "no-invented-offender")
	}
}

// ZZ_C35_clear: reports judged bad or wonky (fewer than two thirds positive) are removed from
// pending availability; good ones, unjudged ones and empty cores are kept as they are (10.15).
// Two cores, each empty or holding a pending report; 0..2 verdict summaries, each about the
// report of core 0, the report of core 1 or a report that is not pending, each with any vote
// count 0..5 (so two cores can be cleared by one extrinsic, and the same report can be judged
// twice); report hash = Blake2b of the encoding (uninterpreted, collision-free).
//zz:workers=8
func ZZ_C35_clear() {
	cs := blockchain.ZZFresh()
	rho := make(types.AvailabilityAssignments, types.CoresCount)
	var hashes []types.WorkReportHash
	var present [2]bool
	for i := 0; i < 3; i++ {
		a := &types.AvailabilityAssignment{}
		a.Report.CoreIndex = types.CoreIndex(i % 2)
		a.Report.AuthGasUsed = types.Gas(100 + i)
		hashes = append(hashes, zzReportHash(&a.Report))
		if i < 2 {
			present[i] = zzvt.Range("pending", 0, 1) == 1
			if present[i] {
				rho[i] = a
			}
		}
	}
	cs.GetPriorStates().SetRho(rho)
	nv := zzvt.Range("verdicts", 0, 2)
	var vs []VerdictSummary
	var judged [2]bool
	for k := 0; k < nv; k++ {
		target := zzvt.Range("target", 0, 2)
		sum := zzvt.Range("positives", 0, 5)
		vs = append(vs, VerdictSummary{ReportHash: hashes[target], PositiveJudgmentsSum: sum})
		if target < 2 && sum < types.ValidatorsCount*2/3 {
			judged[target] = true
		}
	}
	vc := NewVerdictController()
	vc.ClearWorkReports(vs)
	out := cs.GetIntermediateStates().GetRhoDagger()
	zzvt.Assert(len(out) == types.CoresCount, "one-slot-per-core")
	for i := 0; i < 2 && i < len(out); i++ {
		switch {
		case !present[i]:
			zzvt.Assert(out[i] == nil, "empty-core-stays-empty")
		case judged[i]:
			zzvt.Assert(out[i] == nil, "bad-or-wonky-report-removed")
		default:
			zzvt.Assert(out[i] != nil && out[i].Report.AuthGasUsed == types.Gas(100+i), "unjudged-or-good-report-kept")
		}
	}
}
