package extrinsic

import (
	"github.com/New-JAMneration/JAM-Protocol/internal/types"
	"github.com/New-JAMneration/JAM-Protocol/internal/zzvt"
)

// ZZ_C20_rotate: rotateCores is R(c, n) = [(x+n) mod C] (11.19) for every input.
func ZZ_C20_rotate() {
	in := make([]types.U32, 3)
	for i := range in {
		in[i] = types.U32(zzvt.U32("c"))
		zzvt.Assume(in[i] < types.U32(types.CoresCount))
	}
	n := types.U32(zzvt.U32("n"))
	zzvt.Assume(n < 1<<31)
	out := rotateCores(in, n)
	zzvt.Assert(len(out) == 3, "length")
	for i := range out {
		zzvt.Assert(uint64(out[i]) == (uint64(in[i])+uint64(n))%uint64(types.CoresCount), "rotation")
	}
}

// ZZ_C20_assign: the validator-to-core assignment P(e, t) for the tiny parameters (V=6, C=2,
// E=12, R=4), all entropies (through the uninterpreted Blake2b) and all slots: every core gets
// exactly V/C validators, and the assignment one rotation period later in the same epoch is the
// same assignment rotated by one core.
//zz:workers=16
func ZZ_C20_assign() {
	var e types.Entropy
	zzvt.FillBytes("entropy", e[:])
	t := types.TimeSlot(zzvt.U32("slot"))
	a := permute(e, t)
	zzvt.Assert(len(a) == types.ValidatorsCount, "one-core-per-validator")
	for c := 0; c < types.CoresCount; c++ {
		var cnt uint64
		for _, x := range a {
			cnt += zzvt.Ite64(x == types.CoreIndex(c), 1, 0)
		}
		zzvt.Assert(cnt == uint64(types.ValidatorsCount/types.CoresCount), "each-core-gets-V/C-validators")
	}
	// rotation
	R, E := uint32(types.RotationPeriod), uint32(types.EpochLength)
	zzvt.Assume(uint32(t) < 1<<31)
	zzvt.Assume(uint32(t)%E+R < E) // t+R in the same epoch
	b := permute(e, t+types.TimeSlot(R))
	for i := range a {
		zzvt.Assert(uint32(b[i]) == (uint32(a[i])+1)%uint32(types.CoresCount), "rotates-by-one-core-per-period")
	}
}
