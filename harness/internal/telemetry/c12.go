package telemetry

import "github.com/New-JAMneration/JAM-Protocol/internal/zzvt"

// ZZ_C12_telemetry_enc: EncodeNatural is the canonical encoding for every 64-bit value.
func ZZ_C12_telemetry_enc() {
	v := zzvt.U64("v")
	got := EncodeNatural(v)
	want, n := zzvt.RefNatEnc(v)
	zzvt.Assert(zzvt.EqBytes(got, want[:n]), "enc-canonical")
}

// ZZ_C12_telemetry_dec: Decoder.ReadNatural accepts only canonical encodings and consumes
// exactly their length.
func ZZ_C12_telemetry_dec() {
	n := zzvt.Range("n", 0, 10)
	data := zzvt.Bytes("in", n)
	d := NewDecoder(data)
	v, err := d.ReadNatural()
	if err == nil {
		zzvt.Cover("accepted")
		zzvt.Assert(zzvt.IsRefNatPrefix(data, v), "dec-accepts-only-canonical")
		zzvt.Assert(d.Pos() == zzvt.RefNatLen(v), "dec-consumed-length")
	}
}

// ZZ_C12_telemetry_dec_complete: canonical encodings followed by junk decode to their value.
func ZZ_C12_telemetry_dec_complete() {
	v := zzvt.U64("v")
	enc, n := zzvt.RefNatEnc(v)
	data := append(append([]byte{}, enc[:n]...), zzvt.Bytes("junk", 2)...)
	d := NewDecoder(data)
	got, err := d.ReadNatural()
	zzvt.Assert(err == nil, "dec-accepts-canonical")
	zzvt.Assert(got == v && d.Pos() == n, "dec-roundtrip")
}
