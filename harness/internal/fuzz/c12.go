package fuzz

import "github.com/New-JAMneration/JAM-Protocol/internal/zzvt"

// ZZ_C12_fuzz_enc: compactEncode is the canonical encoding for every 64-bit value.
func ZZ_C12_fuzz_enc() {
	v := zzvt.U64("v")
	got := compactEncode(v)
	want, n := zzvt.RefNatEnc(v)
	zzvt.Assert(zzvt.EqBytes(got, want[:n]), "enc-canonical")
}

// ZZ_C12_fuzz_dec: compactDecode (consumed == 0 means rejected) accepts only canonical
// encodings and reports their length.
func ZZ_C12_fuzz_dec() {
	n := zzvt.Range("n", 0, 10)
	data := zzvt.Bytes("in", n)
	v, k := compactDecode(data)
	if k != 0 {
		zzvt.Cover("accepted")
		zzvt.Assert(zzvt.IsRefNatPrefix(data, v), "dec-accepts-only-canonical")
		zzvt.Assert(k == zzvt.RefNatLen(v), "dec-consumed-length")
	}
}

// ZZ_C12_fuzz_dec_complete: canonical encodings followed by junk decode to their value.
func ZZ_C12_fuzz_dec_complete() {
	v := zzvt.U64("v")
	enc, n := zzvt.RefNatEnc(v)
	data := append(append([]byte{}, enc[:n]...), zzvt.Bytes("junk", 2)...)
	got, k := compactDecode(data)
	zzvt.Assert(k == n, "dec-accepts-canonical")
	zzvt.Assert(got == v, "dec-roundtrip")
}
