package fuzz

import (
	"bytes"

	"github.com/New-JAMneration/JAM-Protocol/internal/zzvt"
)

func zzSafely(bound int, f func()) {
	zzvt.AllocBudget(bound)
	panicked := zzvt.Try(f)
	// one label: the engine reports an over-budget allocation as a panic at the make(), the
	// native replay either panics there or measures the allocation afterwards
	zzvt.Assert(!panicked && zzvt.Allocated() <= bound, "no-go-panic-and-allocation-bounded-by-input")
}

// ZZ_C14_fuzz_frame: Message.ReadFrom on a byte stream whose four-byte length is 0..9
// (arbitrary) or one of 2^16, 2^31-1, 2^32-1, followed by an arbitrary type byte and 0..2
// arbitrary payload bytes (also streams cut inside the length): an error or a message, no Go
// panic, and at most 64*len+65536 elements allocated.
//zz:workers=8 paths=60000 conccap=300
func ZZ_C14_fuzz_frame() {
	var data []byte
	switch zzvt.Range("lengthClass", 0, 4) {
	case 0:
		l := zzvt.U8("smallLength")
		zzvt.Assume(l < 10)
		data = []byte{l, 0, 0, 0}
	case 1:
		data = []byte{0, 0, 1, 0}
	case 2:
		data = []byte{0xff, 0xff, 0xff, 0x7f}
	case 3:
		data = []byte{0xff, 0xff, 0xff, 0xff}
	case 4:
		data = zzvt.Bytes("cutLength", zzvt.Range("cut", 0, 3))
	}
	if len(data) == 4 {
		data = append(data, zzvt.Bytes("typeAndPayload", zzvt.Range("rest", 0, 3))...)
	}
	zzSafely(64*len(data)+65536, func() {
		var m Message
		_, _ = m.ReadFrom(bytes.NewReader(data))
	})
}

// ZZ_C14_fuzz_peerinfo: PeerInfo.UnmarshalBinary on eleven arbitrary fixed bytes followed by
// 0..2 arbitrary bytes (the compact name length and name), and on every truncation class of
// the fixed part (0, 5, 10 bytes): no Go panic, bounded allocation.
//zz:workers=8 paths=60000 conccap=300
func ZZ_C14_fuzz_peerinfo() {
	n := []int{0, 5, 10, 11, 12, 13}[zzvt.Range("len", 0, 5)]
	data := zzvt.Bytes("peerinfo", n)
	zzSafely(64*len(data)+65536, func() {
		var p PeerInfo
		_ = p.UnmarshalBinary(data)
	})
}

// ZZ_C11_fuzz_messages: PeerInfo (arbitrary versions and features, name of length 0..2),
// GetState, StateRoot and ErrorMessage frames round-trip through Message.MarshalBinary and
// Message.ReadFrom, consuming exactly the frame.
//zz:workers=8
func ZZ_C11_fuzz_messages() {
	var m Message
	kind := zzvt.Range("kind", 0, 3)
	switch kind {
	case 0:
		m.Type = MessageType_PeerInfo
		m.PeerInfo = &PeerInfo{FuzzVersion: zzvt.U8("fv"), FuzzFeatures: Features(zzvt.U32("ff")),
			JamVersion: Version{zzvt.U8("j1"), zzvt.U8("j2"), zzvt.U8("j3")}, AppVersion: Version{zzvt.U8("a1"), zzvt.U8("a2"), zzvt.U8("a3")},
			AppName: []string{"", "x", "jam"}[zzvt.Range("name", 0, 2)]}
	case 1:
		m.Type = MessageType_GetState
		var h GetState
		zzvt.FillBytes("hash", h[:2])
		m.GetState = &h
	case 2:
		m.Type = MessageType_StateRoot
		var h StateRoot
		zzvt.FillBytes("root", h[:2])
		m.StateRoot = &h
	case 3:
		m.Type = MessageType_ErrorMessage
		m.Error = &ErrorMessage{Error: []string{"", "boom"}[zzvt.Range("text", 0, 1)]}
	}
	enc, err := m.MarshalBinary()
	zzvt.Assert(err == nil, "frame-encodes")
	if err != nil {
		return
	}
	r := bytes.NewReader(append(append([]byte{}, enc...), zzvt.U8("junk")))
	var back Message
	n, err := back.ReadFrom(r)
	zzvt.Assert(err == nil, "frame-decodes")
	zzvt.Assert(int(n) == len(enc), "frame-consumed-exactly")
	if err != nil {
		return
	}
	zzvt.Assert(back.Type == m.Type, "frame-type")
	switch kind {
	case 0:
		zzvt.Assert(back.PeerInfo != nil && *back.PeerInfo == *m.PeerInfo, "peerinfo-equal")
	case 1:
		zzvt.Assert(back.GetState != nil && *back.GetState == *m.GetState, "getstate-equal")
	case 2:
		zzvt.Assert(back.StateRoot != nil && *back.StateRoot == *m.StateRoot, "stateroot-equal")
	case 3:
		zzvt.Assert(back.Error != nil && back.Error.Error == m.Error.Error, "error-equal")
	}
}

// ZZ_C14_fuzz_messages_raw: ErrorMessage.UnmarshalBinary (it parses a compact length itself) on
// an arbitrary compact length of 1, 2, 3 or 9 bytes followed by 0..2 text bytes: no Go panic,
// bounded allocation. The text bytes are concrete (they are turned into a Go string).
//zz:workers=8 paths=60000 conccap=300
func ZZ_C14_fuzz_messages_raw() {
	n := [4]int{1, 2, 3, 9}[zzvt.Range("lengthBytes", 0, 3)]
	data := zzvt.Bytes("length", n)
	switch n {
	case 1:
		zzvt.Assume(data[0] < 0x80)
	case 2:
		zzvt.Assume(zzvt.And(data[0] >= 0x80, data[0] < 0xc0))
	case 3:
		zzvt.Assume(zzvt.And(data[0] >= 0xc0, data[0] < 0xe0))
	case 9:
		zzvt.Assume(data[0] == 0xff)
	}
	data = append(data, []byte("ab")[:zzvt.Range("text", 0, 2)]...)
	zzSafely(64*len(data)+65536, func() {
		var m ErrorMessage
		_ = m.UnmarshalBinary(data)
	})
}
