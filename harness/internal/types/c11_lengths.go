package types

import (
	"bytes"

	"github.com/New-JAMneration/JAM-Protocol/internal/zzvt"
)

// The generated round-trip harnesses keep sequences at 0..2 elements; the length prefix itself
// is decided here for every value, and a byte string / a list at each boundary of the compact
// length classes goes through the whole codec.

// ZZ_C11_length_prefix: Encoder.EncodeLength(n) appends exactly the canonical natural encoding
// of n, for every 64-bit n (so the prefix read back by DecodeLength, which C12 decides to accept
// only canonical encodings, is n again).
func ZZ_C11_length_prefix() {
	n := zzvt.U64("n")
	want, k := zzvt.RefNatEnc(n)
	e := NewEncoder()
	err := e.EncodeLength(n)
	zzvt.Assert(err == nil, "length-prefix-no-error")
	got := e.buf.Bytes()
	zzvt.Assert(zzvt.EqBytes(got, want[:k]), "length-prefix-canonical")
}

// ZZ_C11_length_prefix_decode: DecodeLength returns n for the canonical encoding of every n that
// is followed by at least n bytes (n <= 300 here: the remaining input must hold the sequence).
func ZZ_C11_length_prefix_decode() {
	n := zzvt.Range("n", 0, 7)
	v := []uint64{0, 1, 127, 128, 129, 255, 256, 300}[n]
	enc, k := zzvt.RefNatEnc(v)
	data := append(append([]byte{}, enc[:k]...), make([]byte, 300)...)
	d := NewDecoder()
	d.buf = bytes.NewReader(data)
	got, err := d.DecodeLength()
	zzvt.Assert(err == nil, "length-decodes")
	zzvt.Assert(got == v, "length-roundtrip")
}

// zzBoundaryLen: lengths around the one-byte/two-byte (128) and two-byte/three-byte (16384)
// class boundaries of the compact length prefix.
func zzBoundaryLen() int {
	return []int{127, 128, 129, 16383, 16384, 16385}[zzvt.Range("boundaryLength", 0, 5)]
}

// ZZ_C11_boundary_bytes: a ByteSequence whose length sits on a length-class boundary (first,
// middle and last byte arbitrary) round-trips: decode(encode(v) ++ junk) consumes exactly the
// encoding and yields v; the encoding is the canonical prefix followed by the bytes.
//zz:workers=6
func ZZ_C11_boundary_bytes() {
	n := zzBoundaryLen()
	v := make(ByteSequence, n)
	v[0], v[n/2], v[n-1] = zzvt.U8("first"), zzvt.U8("middle"), zzvt.U8("last")
	enc, err := NewEncoder().Encode(&v)
	zzvt.Assert(err == nil, "boundary-encodes")
	if err != nil {
		return
	}
	pre, k := zzvt.RefNatEnc(uint64(n))
	zzvt.Assert(len(enc) == k+n, "boundary-encoding-length")
	if len(enc) == k+n {
		zzvt.Assert(zzvt.EqBytes(enc[:k], pre[:k]), "boundary-prefix-canonical")
	}
	in := append(append([]byte{}, enc...), zzvt.U8("junk"))
	var w ByteSequence
	c, err := NewDecoder().DecodeWithConsumed(in, &w)
	zzvt.Assert(err == nil, "boundary-decodes")
	zzvt.Assert(c == len(enc), "boundary-consumes-exactly")
	zzvt.Assert(len(w) == n, "boundary-length-equal")
	if len(w) == n {
		zzvt.Assert(w[0] == v[0] && w[n/2] == v[n/2] && w[n-1] == v[n-1], "boundary-value-equal")
	}
}

// ZZ_C11_boundary_list: the same for a list of fixed-size items (OffendersMark, 32-byte keys)
// of 127, 128 and 129 entries, first byte of the first and of the last entry arbitrary.
//zz:workers=3
func ZZ_C11_boundary_list() {
	n := []int{127, 128, 129}[zzvt.Range("boundaryCount", 0, 2)]
	v := make(OffendersMark, n)
	v[0][0], v[n-1][0] = zzvt.U8("first"), zzvt.U8("last")
	enc, err := NewEncoder().Encode(&v)
	zzvt.Assert(err == nil, "boundary-list-encodes")
	if err != nil {
		return
	}
	_, k := zzvt.RefNatEnc(uint64(n))
	zzvt.Assert(len(enc) == k+32*n, "boundary-list-encoding-length")
	in := append(append([]byte{}, enc...), zzvt.U8("junk"))
	var w OffendersMark
	c, err := NewDecoder().DecodeWithConsumed(in, &w)
	zzvt.Assert(err == nil, "boundary-list-decodes")
	zzvt.Assert(c == len(enc), "boundary-list-consumes-exactly")
	zzvt.Assert(len(w) == n, "boundary-list-length-equal")
	if len(w) == n {
		zzvt.Assert(w[0][0] == v[0][0] && w[n-1][0] == v[n-1][0], "boundary-list-value-equal")
	}
}
