package types

import (
	"bytes"

	"github.com/New-JAMneration/JAM-Protocol/internal/zzvt"
)

// ZZ_C12_types_enc: Encoder.EncodeUint(v) is the canonical encoding for every 64-bit v.
func ZZ_C12_types_enc() {
	v := zzvt.U64("v")
	want, n := zzvt.RefNatEnc(v) // first: splits the path by the nine length classes
	got, err := (&Encoder{}).EncodeUint(v)
	zzvt.Assert(err == nil, "enc-no-error")
	zzvt.Assert(zzvt.EqBytes(got, want[:n]), "enc-canonical")
}

// ZZ_C12_types_dec: Decoder.DecodeUint on every byte string of length 0..10: an accepted
// input starts with the canonical encoding of the returned value (so non-minimal and
// truncated strings are rejected).
func ZZ_C12_types_dec() {
	n := zzvt.Range("n", 0, 10)
	data := zzvt.Bytes("in", n)
	v, err := NewDecoder().DecodeUint(data)
	if err == nil {
		zzvt.Cover("accepted")
		zzvt.Assert(zzvt.IsRefNatPrefix(data, v), "dec-accepts-only-canonical")
	}
}

// ZZ_C12_types_dec_complete: every canonical encoding, followed by arbitrary junk, decodes
// to its value.
func ZZ_C12_types_dec_complete() {
	v := zzvt.U64("v")
	enc, n := zzvt.RefNatEnc(v)
	data := append(append([]byte{}, enc[:n]...), zzvt.Bytes("junk", 2)...)
	got, err := NewDecoder().DecodeUint(data)
	zzvt.Assert(err == nil, "dec-accepts-canonical")
	zzvt.Assert(got == v, "dec-roundtrip")
}

// ZZ_C12_types_reader: the stream variant (decodeUintFromReader) accepts only canonical
// encodings and consumes exactly their length.
func ZZ_C12_types_reader() {
	n := zzvt.Range("n", 0, 10)
	data := zzvt.Bytes("in", n)
	d := NewDecoder()
	d.buf = bytes.NewReader(data)
	v, err := d.decodeUintFromReader()
	if err == nil {
		zzvt.Cover("accepted")
		zzvt.Assert(zzvt.IsRefNatPrefix(data, v), "reader-accepts-only-canonical")
		zzvt.Assert(n-d.buf.Len() == zzvt.RefNatLen(v), "reader-consumes-encoding-length")
	}
}

// ZZ_C12_types_reader_complete: canonical encodings are accepted by the stream variant.
func ZZ_C12_types_reader_complete() {
	v := zzvt.U64("v")
	enc, n := zzvt.RefNatEnc(v)
	data := append(append([]byte{}, enc[:n]...), zzvt.Bytes("junk", 2)...)
	d := NewDecoder()
	d.buf = bytes.NewReader(data)
	got, err := d.decodeUintFromReader()
	zzvt.Assert(err == nil, "reader-accepts-canonical")
	zzvt.Assert(got == v, "reader-roundtrip")
	zzvt.Assert(d.buf.Len() == 2, "reader-leaves-junk")
}
