package types

import "github.com/New-JAMneration/JAM-Protocol/internal/zzvt"

// zzMutate returns a mutation of a valid encoding: either one byte at a symbolic position
// replaced by an arbitrary byte, or a truncation (every cut for encodings of at most 48 bytes;
// otherwise the cuts 0, 1, len/2, len-2 and len-1).
func zzMutate(enc []byte, truncate bool) []byte {
	in := append([]byte{}, enc...)
	if len(in) == 0 {
		return in
	}
	if truncate {
		if len(in) <= 48 {
			return in[:zzvt.Range("cut", 0, len(in)-1)]
		}
		switch zzvt.Range("cutClass", 0, 4) {
		case 0:
			return in[:0]
		case 1:
			return in[:1]
		case 2:
			return in[:len(in)/2]
		case 3:
			return in[:len(in)-2]
		}
		return in[:len(in)-1]
	}
	pos := zzvt.Int("pos")
	zzvt.Assume(zzvt.And(pos >= 0, pos < len(in)))
	mut := zzvt.U8("mut")
	for i := range in {
		in[i] = byte(zzvt.Ite64(pos == i, uint64(mut), uint64(in[i])))
	}
	return in
}

// zzInt yields an integer field value of the given width. The class (bits 8.. of d) is chosen
// once per harness path: 0 = an arbitrary value in 64..127 (one-byte compact encoding),
// 1 = the largest value of the width (longest compact encoding), 2 = 2^16 + 2^14 + an arbitrary
// byte for 32/64-bit fields (three-byte compact encoding with value bits in the prefix byte),
// 2^14 + byte for 16-bit fields (class 0 below 16), 3 = zero. Natural-number
// encoding itself is decided for every 64-bit value by the C12 harnesses.
func zzInt(d int, tag string, width uint) uint64 {
	switch d >> 8 & 0xff {
	case 1:
		return ^uint64(0) >> (64 - width)
	case 2:
		if width >= 32 {
			return 1<<16 + 1<<14 + uint64(zzU8(d, tag)) // prefix c1: value bits in the prefix byte
		}
		if width >= 16 {
			return 1<<14 + uint64(zzU8(d, tag))
		}
	case 3:
		return 0
	}
	return uint64(zzU8(d, tag)&0x3f | 0x40)
}

// zzElemDepth is the generation depth for element i of a sequence: the first two elements are
// generated one level deeper, the remaining ones minimally (empty sequences, absent optionals).
func zzElemDepth(d, i int) int {
	if i < 2 {
		return d + 1
	}
	return d | 0x7f
}

// zzIntClass picks the integer class of a round-trip path: zero, 64..127 or the maximum of
// the width; mid selects the three-byte class instead (thorough tier).
func zzIntClass(mid bool) int {
	if mid {
		return 2
	}
	return [3]int{0, 1, 3}[zzvt.Range("intClass", 0, 2)]
}

// Shape of generated values. d carries the nesting depth (bits 0..7), the integer class
// (bits 8..15) and the inner shape (bit 16). At depth 0 every sequence length (0, 1 or 2),
// optional presence and map entry is an independent choice; at depth 1 all of them follow the
// inner-shape bit (all one element / present, or all empty / absent); depth 2 does the same when
// bit 18 (deep shape) is set and is empty otherwise; deeper levels are empty.
func zzLen(d int, tag string) int {
	switch d & 0xff {
	case 0:
		return zzvt.Range(tag, 0, 2)
	case 1:
		return 1 - d>>16&1
	case 2:
		return (d >> 18 & 1) * (1 - d>>16&1)
	}
	return 0
}

func zzPresent(d int, tag string) bool {
	switch d & 0xff {
	case 0:
		return zzvt.Bool(tag)
	case 1:
		return d>>16&1 == 0
	case 2:
		return d>>18&1 == 1 && d>>16&1 == 0
	}
	return false
}

// zzSecond: a second map entry is generated at depth 0 only.
func zzSecond(d int, tag string) bool {
	return d&0xff == 0 && zzvt.Bool(tag)
}

// zzBytesLen is the length of a variable-length byte string: 0..2 at depth 0, then 1 or 0.
func zzBytesLen(d int, tag string) int {
	switch d & 0xff {
	case 0:
		return zzvt.Range(tag, 0, 2)
	case 1:
		return 1 - d>>16&1
	case 2:
		return (d >> 18 & 1) * (1 - d>>16&1)
	}
	return 0
}

// Bit 17 of d selects concrete content: the mutation harnesses (C13, C14) start from one
// concrete valid encoding per shape and integer class, so that only the mutation (position,
// substituted byte, cut) is symbolic; a parse that has lost alignment then runs over concrete
// bytes instead of forking on every following byte.
func zzConcrete(d int) bool { return d>>17&1 == 1 }

func zzU8(d int, tag string) uint8 {
	if zzConcrete(d) {
		return 0x41
	}
	return zzvt.U8(tag)
}

func zzBool(d int, tag string) bool {
	if zzConcrete(d) {
		return true
	}
	if d&0xff >= 2 {
		return d>>16&1 == 0 // deep booleans follow the inner-shape bit (decoders branch on each)
	}
	return zzvt.Bool(tag)
}

func zzFill(d int, tag string, p []byte) {
	if zzConcrete(d) {
		for i := range p {
			p[i] = 0x41 + byte(i)
		}
		return
	}
	zzvt.FillBytes(tag, p)
}

func zzBytes(d int, tag string, n int) []byte {
	if zzConcrete(d) {
		p := make([]byte, n)
		for i := range p {
			p[i] = 0x41 + byte(i)
		}
		return p
	}
	return zzvt.Bytes(tag, n)
}

// zzDecodeSafely decodes in into w and asserts the C14 obligations: no Go panic, and at most
// 64*len(in)+65536 elements allocated (natively: bytes).
func zzDecodeSafely(in []byte, w any) {
	bound := 64*len(in) + 65536
	zzvt.AllocBudget(bound)
	panicked := zzvt.Try(func() { _ = NewDecoder().Decode(in, w) })
	// one label: the engine reports an over-budget allocation as a panic at the make(), the
	// native replay either panics there or measures the allocation afterwards
	zzvt.Assert(!panicked && zzvt.Allocated() <= bound, "decode-no-panic-and-allocation-bounded")
}

// zzBomb overlays a maximal length prefix on a valid encoding: at a symbolic position the
// byte ff followed by the eight bytes of 2^64-1, 2^63 or 2^56 (the nine-byte compact form);
// eight spare bytes are appended first so that the overlay fits at every position.
func zzBomb(enc []byte) []byte {
	in := append(append([]byte{}, enc...), make([]byte, 8)...)
	pos := zzvt.Int("bombPos")
	zzvt.Assume(zzvt.And(pos >= 0, pos < len(enc)+1))
	payload := [3][8]byte{
		{0xff, 0xff, 0xff, 0xff, 0xff, 0xff, 0xff, 0xff},
		{0, 0, 0, 0, 0, 0, 0, 0x80},
		{0, 0, 0, 0, 0, 0, 0, 0x01},
	}[zzvt.Range("bombValue", 0, 2)]
	for i := range in {
		b := uint64(in[i])
		for k := 7; k >= 0; k-- {
			b = zzvt.Ite64(pos+1+k == i, uint64(payload[k]), b)
		}
		in[i] = byte(zzvt.Ite64(pos == i, 0xff, b))
	}
	return in
}
