package authorization

import (
	"github.com/New-JAMneration/JAM-Protocol/internal/types"
	"github.com/New-JAMneration/JAM-Protocol/internal/zzvt"
)

func zzAuth(b byte) types.AuthorizerHash {
	var h types.AuthorizerHash
	h[0] = b
	return h
}

// zzRefRemoveLeftmost: the pool without the leftmost occurrence of h.
func zzRefRemoveLeftmost(p []byte, h byte) []byte {
	out := []byte{}
	removed := false
	for _, v := range p {
		if !removed && v == h {
			removed = true
			continue
		}
		out = append(out, v)
	}
	return out
}

// ZZ_C24_pools: alpha' per 8.2/8.3 for C=2 cores: pools of length 0, 1, 2, 7, 8 (core 0) and 1,
// 8 (core 1) over a three-value alphabet (so duplicates occur), 0..2 guarantees with any core
// and any authorizer (including ones absent from the pool, and the very queue entry that the slot
// selects for that core), every slot; queues are the real
// size Q=80 with distinguishable entries. Result: prior pool minus the leftmost occurrence of
// each used authorizer, plus queue[slot mod Q], last O entries; never more than O.
//zz:workers=16 paths=60000
func ZZ_C24_pools() {
	lens := [2]int{[]int{0, 1, 2, 7, 8}[zzvt.Range("len0sel", 0, 4)], 1 + 7*zzvt.Range("len1sel", 0, 1)}
	alpha := make(types.AuthPools, types.CoresCount)
	var model [2][]byte
	for c := 0; c < 2; c++ {
		alpha[c] = make(types.AuthPool, lens[c])
		for i := range alpha[c] {
			b := zzvt.U8("auth")
			zzvt.Assume(zzvt.And(b >= 1, b <= 3))
			alpha[c][i] = zzAuth(b)
			model[c] = append(model[c], b)
		}
	}
	varphi := make(types.AuthQueues, types.CoresCount)
	for c := range varphi {
		varphi[c] = make(types.AuthQueue, types.AuthQueueSize)
		for i := range varphi[c] {
			varphi[c][i] = zzAuth(byte(100 + i))
			varphi[c][i][1] = byte(10 + c)
		}
	}
	slot := types.TimeSlot(zzvt.U32("slot"))
	qi := uint32(slot) % uint32(types.AuthQueueSize)
	ng := zzvt.Range("guarantees", 0, 2)
	gs := make(types.GuaranteesExtrinsic, ng)
	for i := range gs {
		core := zzvt.Range("core", 0, 1)
		a := zzvt.U8("used")
		zzvt.Assume(zzvt.And(a >= 1, a <= 5))
		gs[i].Report.CoreIndex = types.CoreIndex(core)
		h := zzAuth(a)
		if a == 5 {
			// the authorizer that is about to enter this core's pool from the queue: it is not
			// in the prior pool, so nothing is removed
			h[0], h[1] = byte(100+qi), byte(10+core)
		}
		gs[i].Report.AuthorizerHash = types.OpaqueHash(h)
		model[core] = zzRefRemoveLeftmost(model[core], a)
	}
	out, err := STFAlpha2AlphaPrime(slot, gs, alpha, varphi)
	zzvt.Assert(err == nil, "transition-succeeds")
	if err != nil {
		return
	}
	for c := 0; c < 2; c++ {
		want := model[c]
		n := len(want) + 1
		if n > types.AuthPoolMaxSize {
			want = want[n-types.AuthPoolMaxSize:]
			n = types.AuthPoolMaxSize
		}
		zzvt.Assert(len(out[c]) == n, "pool-length")
		zzvt.Assert(len(out[c]) <= types.AuthPoolMaxSize, "pool-never-exceeds-O")
		if len(out[c]) == n {
			for i := range want {
				zzvt.Assert(out[c][i] == zzAuth(want[i]), "pool-prefix")
			}
			last := out[c][n-1]
			zzvt.Assert(zzvt.And(uint32(last[0]) == 100+qi, last[1] == byte(10+c)), "queue-entry-selected-by-slot")
		}
	}
}
