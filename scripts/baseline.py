#!/usr/bin/env python3
"""Run the repository's test suite (guard off: no overlay, no tags) and compare with
/root/.vp/BASELINE.json: every stable_pass test must still pass. Exit 0 iff so."""
import json, subprocess, sys, os
base = json.load(open('/root/.vp/BASELINE.json'))
want = set(base['stable_pass'])
env = dict(os.environ, GOFLAGS='-mod=mod', GOPROXY='off')
env.pop('GOTOOLCHAIN', None); env.pop('GOSUMDB', None)
p = subprocess.run(['go', 'test', '-mod=mod', '-json', '-vet=off', '-count=1', '-timeout', '25m', './...'],
                   cwd='/repo', env=env, stdout=subprocess.PIPE, stderr=subprocess.DEVNULL, text=True)
passed = set()
for line in p.stdout.splitlines():
    try:
        e = json.loads(line)
    except Exception:
        continue
    if e.get('Action') == 'pass' and e.get('Test'):
        passed.add(e['Package'] + '::' + e['Test'])
missing = sorted(want - passed)
print(f'baseline: {len(want & passed)}/{len(want)} stable tests pass')
for m in missing[:40]:
    print('  MISSING', m)
sys.exit(1 if missing else 0)
