#!/usr/bin/env python3
"""Generate /verif/MANIFEST.json from the table below (kept in one place so the manifest is
always schema-valid and not_applicable always lists every property that is not claimed)."""
import json, os, sys
V = '/verif'
props = [json.loads(l) for l in open(f'{V}/properties.jsonl')]
ids = [p['id'] for p in props]

TECH = "bounded symbolic execution of go/ssa + SMT (z3/cvc5), counterexamples replayed natively"

# property id -> dict(text, note, design_ref)
CLAIMS = json.load(open(f'{V}/scripts/claims.json'))
NA = json.load(open(f'{V}/scripts/not_applicable.json'))

checks = []
for i in ids:
    if i not in CLAIMS:
        continue
    c = CLAIMS[i]
    checks.append({
        "property_id": i,
        "quick_cmd": f"./check {i} quick",
        "thorough_cmd": f"./check {i} thorough",
        "evidence_file": f"/verif/evidence/{i}.json",
        "replay_cmd_template": "cd /repo && ZZ_REPLAY={path} go test -vet=off -count=1 -overlay <overlay written by ./check> -run TestZZReplay ./<pkg>   (./check re-runs the replay itself; the case file is self-describing)",
        "engine": "gosym",
        "level_claimed": {"category": "model_checking", "text": c["text"], "design_ref": c.get("design_ref", "DESIGN.md §4")},
        "level_note": c["note"],
        "technique": c.get("technique", TECH),
    })
na = []
for i in ids:
    if i in CLAIMS:
        continue
    na.append({"property_id": i, "reason": NA.get(i, "no check built yet with this technique in this session; not claimed")})

m = {
    "version": 1,
    "setup_cmd": "sh /verif/setup.sh",
    "hooks": {
        "guard": "zzverif (no hooks: harnesses are injected with go/packages and 'go test -overlay', nothing is compiled into /repo)",
        "enable": "overlay only: /verif/harness/<pkg>/*.go are overlaid as /repo/<pkg>/zz_verif_*.go for the engine and for native replay",
        "baseline_off_cmd": "python3 /verif/scripts/baseline.py",
        "source_commits": [],
        "add_only": True,
    },
    "engines": [{
        "name": "gosym", "path": "/verif/engine",
        "serves_properties": [c["property_id"] for c in checks],
        "kind_free_text": "symbolic executor for Go: fork of golang.org/x/tools/go/ssa/interp with SMT terms for scalars, path exploration by re-execution with decision prefixes, run-time panics as branches, z3/cvc5 back ends, native replay of every counterexample",
    }],
    "checks": checks,
    "notes": "Every check rebuilds SSA from /repo's working tree on each run. Exit 0 = all explored obligations held (INCONCLUSIVE lines are listed in evidence), exit 1 = natively reproduced violation not listed in known_findings.json, exit 2 = the tree no longer loads / harness no longer type-checks.",
    "not_applicable": na,
}
json.dump(m, open(f'{V}/MANIFEST.json', 'w'), indent=1)
print(f"claimed {len(checks)}, not applicable/unclaimed {len(na)}")
