#!/bin/sh
# usage: try_seeds.sh <seed-id>...   e.g. try_seeds.sh C11-1 C13-1
# For each seeded change: apply it to /repo, run the quick check of its property, record the
# outcome in /tmp/seedtry_<id>.log, undo the change.
cd /repo || exit 2
for s in "$@"; do
  d=/verif/seeded/$s
  p=${s%%-*}
  git diff --quiet || { echo "/repo has uncommitted changes"; exit 2; }
  if ! git apply "$d/patch.diff"; then echo "$s: patch does not apply"; continue; fi
  st=$(date +%s)
  (cd /verif && timeout 1500 ./check "$p" quick > /tmp/seedtry_$s.log 2>&1; echo "exit=$?" >> /tmp/seedtry_$s.log)
  git checkout -- . 
  v=$(grep -c "^VIOLATION" /tmp/seedtry_$s.log); i=$(grep -c "^INCONCLUSIVE" /tmp/seedtry_$s.log)
  echo "$s $(tail -1 /tmp/seedtry_$s.log) $(( $(date +%s) - st ))s violations=$v inconclusive=$i first: $(grep -A1 "^VIOLATION" /tmp/seedtry_$s.log | grep harness= | head -1 | cut -c1-150)"
done
git status --short | head -3
