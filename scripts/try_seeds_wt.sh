#!/bin/sh
# usage: try_wt.sh <seed-id>... : applies each seed in a scratch worktree and runs the quick check against it (no evidence written)
cd /verif
for s in "$@"; do
  p=${s%%-*}; w=/tmp/st_$s
  git -C /repo worktree add -q --detach $w HEAD || continue
  if ! git -C $w apply /verif/seeded/$s/patch.diff; then echo "$s: patch does not apply"; git -C /repo worktree remove --force $w; continue; fi
  st=$(date +%s)
  GOMEMLIMIT=40GiB timeout 1500 bin/gosym -repo $w -props $p -tier quick -noevidence -deadline 800 > /tmp/seedtry_$s.log 2>&1; echo "exit=$?" >> /tmp/seedtry_$s.log
  git -C /repo worktree remove --force $w
  v=$(grep -c "^VIOLATION" /tmp/seedtry_$s.log); i=$(grep -c "^INCONCLUSIVE" /tmp/seedtry_$s.log)
  echo "$s $(tail -1 /tmp/seedtry_$s.log) $(( $(date +%s) - st ))s violations=$v inconclusive=$i first: $(grep -A1 "^VIOLATION" /tmp/seedtry_$s.log | grep harness= | head -1 | cut -c1-150)"
done
