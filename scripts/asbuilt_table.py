#!/usr/bin/env python3
"""Print the as-built table (DESIGN.md §0.7) from the evidence files of the last runs."""
import json, glob, os
rows=[]
for f in sorted(glob.glob('/verif/evidence/C*.json')):
    e=json.load(open(f))
    c=e.get('coverage',{})
    hs=c.get('harnesses',[])
    quick=[h for h in hs]
    rows.append((e.get('property_id') or os.path.basename(f)[:-5], e.get('tier') or c.get('tier',''), len(hs), c.get('states'), c.get('obligations'), c.get('traces_validated_against_impl'), round(sum(h.get('wall_s',0) for h in hs)), e.get('wall_seconds') or c.get('wall_seconds')))
print("| property | tier of last run | harnesses | paths | obligations | native replays | worker-seconds |")
print("|---|---|---|---|---|---|---|")
for r in rows:
    print("| %s | %s | %s | %s | %s | %s | %s |" % r[:7])
