#!/usr/bin/env python3
"""Rewrite DESIGN.md §0.7 (as-built bounds per property) from claims.json and the evidence files."""
import json, glob, os
V='/verif'
claims=json.load(open(f'{V}/scripts/claims.json'))
out=["### 0.7 As-built bounds per property (from the last quick run of each check)\n",
"The *decided* column is the registered claim (`MANIFEST.json` → `level_claimed.text`); the numbers are from",
"`/verif/evidence/<id>.json` of the last run on the unchanged tree: harnesses, explored paths, discharged",
"obligations, native replays (counterexamples and sampled passing paths), wall-clock seconds of the run.",
"Everything outside the stated shapes and sizes is outside the claim.\n",
"| id | harnesses | paths | obligations | native replays | wall s | decided (bounds) |","|---|---|---|---|---|---|---|"]
for pid in sorted(claims):
    f=f'{V}/evidence/{pid}.json'
    if not os.path.exists(f): continue
    e=json.load(open(f)); c=e['coverage']
    txt=claims[pid]['text'].replace('|','/').replace('\n',' ')
    out.append(f"| {pid} | {len(c.get('harnesses',[]))} | {c.get('states')} | {c.get('discharged')}/{c.get('obligations')} | {c.get('traces_validated_against_impl')} | {round(e.get('wall_s',0))} | {txt} |")
sec="\n".join(out)+"\n"
s=open(f'{V}/DESIGN.md').read()
marker="## 1. Approach in one page"
if "### 0.7 As-built bounds" in s:
    a=s.index("### 0.7 As-built bounds"); b=s.index(marker)
    s=s[:a]+sec+"\n"+s[b:]
else:
    s=s.replace(marker, sec+"\n"+marker,1)
open(f'{V}/DESIGN.md','w').write(s)
print("section 0.7 written,", len(out)-7, "rows")
