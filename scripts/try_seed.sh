#!/bin/sh
# usage: try_seed.sh <seed-dir> <property-id>...   apply the seeded change to /repo, run the checks, undo.
d="$1"; shift
cd /repo || exit 2
git diff --quiet || { echo "/repo has uncommitted changes"; exit 2; }
git apply "$d/patch.diff" || { echo "patch does not apply"; exit 2; }
for p in "$@"; do
  (cd /verif && timeout 1500 ./check "$p" quick 2>&1 | grep -v "^  harness" | grep "VIOLATION\|KNOWN\|SUMMARY\|INCONCLUSIVE" | cut -c1-220 | head -8)
  echo "exit=$?"
done
git checkout -- . && git status --short | head -3
